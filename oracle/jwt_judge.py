#!/usr/bin/env python3
"""Independent judge for C12 (no Rust code involved): reads the case dumps written by `vh c12 --dump DIR`
and decides for every case whether the handler had to run, must not run, or may do either.

accept  (handler must run and see exactly the signed payload):
        Authorization == "Bearer " + h.p.s, exactly three parts, s == base64url_nopad(HMAC_alg(secret, h.p)) as a string,
        h decodes (strict base64url, no padding) to a JSON object whose "alg" is the configured algorithm, p decodes to JSON,
        and the exp/nbf/iat claims (JSON numbers) admit the clock reading taken around the request.
either  the statement is silent: correctly signed but header carries typ/cty other than JWT or is oddly spaced,
        payload not a JSON object, scheme in another letter case.
        (A time claim that is present but not a JSON number admits no time: reject.)
reject  everything else (and every OPTIONS request: the handler must not run).
Prints one JSON object: {"evaluations", "violations": [...], "counters": {...}, "disagreements_with_worker": n}.
"""
import sys, json, hmac, hashlib, base64, re

DIG = {"HS256": hashlib.sha256, "HS384": hashlib.sha384, "HS512": hashlib.sha512}
B64URL = re.compile(r"^[A-Za-z0-9_-]*$")


def b64u_strict(s):
    """strict: alphabet only, no padding, canonical (re-encoding gives the same text)"""
    if not B64URL.match(s) or len(s) % 4 == 1:
        return None
    try:
        raw = base64.urlsafe_b64decode(s + "=" * (-len(s) % 4))
    except Exception:
        return None
    if base64.urlsafe_b64encode(raw).decode().rstrip("=") != s:
        return None
    return raw


def judge(c):
    """returns (verdict, payload_value_or_None)"""
    if c["method"] == "OPTIONS":
        return "reject", None
    a = c["authorization"]
    if a is None:
        return "reject", None
    scheme_ok = a.startswith("Bearer ")
    if not scheme_ok:
        if a[:7].lower() == "bearer ":
            tok = a[7:]
            v, p = judge_token(c, tok)
            return ("either" if v != "reject" else "reject"), p
        return "reject", None
    return judge_token(c, a[7:])


def judge_token(c, tok):
    parts = tok.split(".")
    if len(parts) != 3:
        return "reject", None
    h, p, s = parts
    secret = bytes.fromhex(c["secret_hex"])
    mac = hmac.new(secret, (h + "." + p).encode(), DIG[c["alg"]]).digest()
    if s != base64.urlsafe_b64encode(mac).decode().rstrip("="):
        return "reject", None
    hraw, praw = b64u_strict(h), b64u_strict(p)
    if hraw is None or praw is None:
        return "reject", None
    try:
        hv = json.loads(hraw)
    except Exception:
        return "reject", None
    if not isinstance(hv, dict) or hv.get("alg") != c["alg"] or not isinstance(hv.get("alg"), str):
        return "reject", None
    silent = False
    for k in ("typ", "cty"):
        if k in hv and not (isinstance(hv[k], str) and hv[k].upper() == "JWT"):
            silent = True
    if hraw.strip() != hraw:
        silent = True
    try:
        pv = json.loads(praw)
    except Exception:
        return "either", None  # signed garbage: nothing to show to the handler; statement silent
    if not isinstance(pv, dict):
        return "either", pv
    verdicts = set()
    for now in (c["t0"], c["t1"]):
        ok = True
        for claim in ("exp", "nbf", "iat"):
            if claim in pv:
                x = pv[claim]
                if isinstance(x, bool) or not isinstance(x, (int, float)):
                    ok = False  # present but not a NumericDate: it admits no time at all
                    continue
                if claim == "exp" and not (now < x):
                    ok = False
                if claim in ("nbf", "iat") and not (x <= now):
                    ok = False
        verdicts.add(ok)
    if len(verdicts) > 1:
        return "either", pv  # clock moved across a boundary during the request
    if not verdicts.pop():
        return "reject", None
    return ("either" if silent else "accept"), pv


def main(files):
    n = 0
    viols = []
    counters = {"py_accept": 0, "py_reject": 0, "py_either": 0}
    disagree = 0
    per_sig = {}
    for f in files:
        for line in open(f):
            line = line.strip()
            if not line:
                continue
            c = json.loads(line)
            n += 1
            v, pv = judge(c)
            counters["py_" + v] += 1
            if {v, c["worker_expect"]} == {"accept", "reject"}:
                # the two judges must not contradict each other (accept vs reject); a contradiction is a harness problem, reported as such
                disagree += 1
                sig = f"C12/judges-disagree:{c['kind']}"
                per_sig[sig] = per_sig.get(sig, 0) + 1
                if per_sig[sig] <= 2:
                    viols.append({"sig": sig, "what": f"python judge says {v}, worker judge says {c['worker_expect']} (kind {c['kind']})", "case": c})
                continue
            if c["outcome"] != "response":
                continue  # reported by the worker itself
            sig = None
            if v == "reject" and c["ran"]:
                sig, what = f"C12/false-admission:{c['kind']}", f"python judge: handler ran for a token that must be refused (kind {c['kind']})"
            elif v == "reject" and c["method"] != "OPTIONS" and not (400 <= c["status"] < 600):
                sig, what = f"C12/refusal-status:{c['kind']}", f"python judge: refused with status {c['status']}"
            elif v == "accept" and not c["ran"]:
                sig, what = f"C12/false-rejection:{c['kind']}", f"python judge: token of the configured key refused with status {c['status']}"
            elif c["ran"] and pv is not None and (c["seen"] is None or json.loads(c["seen"]) != pv):
                sig, what = "C12/payload-mismatch", f"python judge: handler saw {c['seen']!r}, signed payload is {pv!r}"
            if sig:
                per_sig[sig] = per_sig.get(sig, 0) + 1
                if per_sig[sig] <= 2:
                    viols.append({"sig": sig, "what": what, "case": c})
    print(json.dumps({"evaluations": n, "violations": viols, "viol_per_sig": per_sig, "counters": counters, "disagreements_with_worker": disagree}))


if __name__ == "__main__":
    main(sys.argv[1:])
