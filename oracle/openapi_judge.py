#!/usr/bin/env python3
"""Judge for C15: reads the records dumped by `vh c15 --dump DIR` ({operations (description), document, probes}) and checks
that the document is valid and describes exactly the application. Uses the jsonschema package (Draft 2020-12).
Prints {"evaluations", "violations", "viol_per_sig", "counters"}."""
import sys, json, re
from jsonschema import Draft202012Validator

METHODS = {"get", "put", "post", "patch", "delete", "options", "head", "trace"}


def resolve(doc, ref):
    if not ref.startswith("#/"):
        return None
    cur = doc
    for part in ref[2:].split("/"):
        part = part.replace("~1", "/").replace("~0", "~")
        if isinstance(cur, dict) and part in cur:
            cur = cur[part]
        else:
            return None
    return cur


def walk_refs(node, out):
    if isinstance(node, dict):
        for k, v in node.items():
            if k == "$ref" and isinstance(v, str):
                out.append(v)
            else:
                walk_refs(v, out)
    elif isinstance(node, list):
        for v in node:
            walk_refs(v, out)


def schema_positions(doc):
    for name, s in (doc.get("components", {}).get("schemas", {}) or {}).items():
        yield f"components.schemas.{name}", s
    for path, item in (doc.get("paths") or {}).items():
        for m, op in item.items():
            if m not in METHODS or not isinstance(op, dict):
                continue
            for i, p in enumerate(op.get("parameters", []) or []):
                if "schema" in p:
                    yield f"{m} {path} parameters[{i}].schema", p["schema"]
            for mt, c in ((op.get("requestBody") or {}).get("content") or {}).items():
                if "schema" in c:
                    yield f"{m} {path} requestBody[{mt}]", c["schema"]
            for code, r in (op.get("responses") or {}).items():
                for mt, c in ((r or {}).get("content") or {}).items():
                    if "schema" in c:
                        yield f"{m} {path} responses.{code}[{mt}]", c["schema"]


def deref(doc, s):
    seen = 0
    while isinstance(s, dict) and "$ref" in s and seen < 10:
        t = resolve(doc, s["$ref"])
        if t is None:
            return s
        s = t
        seen += 1
    return s


def judge(rec, counters):
    """yields (sig, what)"""
    doc = rec["document"]
    ops = rec["operations"]
    if not isinstance(doc, dict) or not str(doc.get("openapi", "")).startswith("3.1") or not isinstance(doc.get("paths"), dict):
        yield "C15/not-an-openapi-3.1-document", f"openapi={doc.get('openapi')!r}"
        return
    # every schema valid under 2020-12
    for where, s in schema_positions(doc):
        counters["schemas_validated"] += 1
        try:
            Draft202012Validator.check_schema(s)
        except Exception as e:
            msg = str(e).split("\n")[0][:160]
            kind = "type-name" if "is not valid under any of the given schemas" in msg or "is not one of" in msg else "other"
            yield f"C15/invalid-schema:{kind}", f"{where}: {msg}"
    # every $ref resolvable
    refs = []
    walk_refs(doc, refs)
    for r in refs:
        counters["refs_resolved"] += 1
        if resolve(doc, r) is None:
            yield "C15/dangling-ref", f"$ref {r} does not resolve"
    # path/method pairs
    documented = {(p, m) for p, item in doc["paths"].items() for m in item if m in METHODS}
    registered = {(o["template"], o["method"]) for o in ops}
    for p, m in sorted(registered - documented):
        yield "C15/operation-not-documented", f"{m} {p} is registered but not in the document"
    for p, m in sorted(documented - registered):
        yield "C15/operation-not-registered", f"{m} {p} is documented but not registered"
    for o in ops:
        key = (o["template"], o["method"])
        if key not in documented:
            continue
        counters["operations"] += 1
        op = doc["paths"][o["template"]][o["method"]]
        where = f"{o['method']} {o['template']} (sig {o['sig']})"
        params = op.get("parameters", []) or []
        pathp = [p for p in params if p.get("in") == "path"]
        tnames = re.findall(r"\{([^}]*)\}", o["template"])
        # every {p} declared as a required path parameter, in order
        names = [p.get("name") for p in pathp]
        if names != tnames or any(p.get("required") is not True for p in pathp):
            undeclared = len(names) < len(tnames) and names == tnames[:len(names)]
            yield ("C15/template-param-undeclared" if undeclared else "C15/path-params-differ"), f"{where}: template params {tnames}, declared path parameters {names} (required: {[p.get('required') for p in pathp]})"
        else:
            # types of the params the handler declares
            for p, t in zip(pathp, o["param_types"]):
                got = deref(doc, p.get("schema", {})).get("type")
                if got != t:
                    yield "C15/path-param-type", f"{where}: path parameter {p.get('name')} has type {got!r}, handler declares {t}"
        # query parameters of the extractor
        q = [(p.get("name"), bool(p.get("required")), deref(doc, p.get("schema", {})).get("type")) for p in params if p.get("in") == "query"]
        want_q = [(x["name"], x["required"], x["type"]) for x in o["query"]]
        if sorted(q) != sorted(want_q):
            yield "C15/query-params-differ", f"{where}: query parameters {q}, extractor declares {want_q}"
        # request body
        media = sorted(((op.get("requestBody") or {}).get("content") or {}).keys())
        want_media = [o["body"]] if o["body"] else []
        if media != want_media:
            yield "C15/request-body-differs", f"{where}: request body media types {media}, extractor declares {want_media}"
        # response statuses
        codes = sorted(str(c) for c in (op.get("responses") or {}).keys())
        want_codes = sorted(str(c) for c in o["codes"])
        if codes != want_codes:
            yield "C15/response-codes-differ", f"{where}: response codes {codes}, return type declares {want_codes}"
        # security iff an authentication fang guards it
        sec = sorted(k for s in (op.get("security") or []) for k in s.keys())
        if sec != sorted(o["auth"]):
            yield "C15/security-differs", f"{where}: security {sec}, guarding fangs {sorted(o['auth'])}"
        for s in sec:
            if s not in (doc.get("components", {}).get("securitySchemes") or {}):
                yield "C15/security-scheme-undefined", f"{where}: security scheme {s} is not defined in components"
        if sorted(op.get("tags", []) or []) != sorted(o["tags"]):
            yield "C15/tags-differ", f"{where}: tags {op.get('tags')}, Tag fangs {o['tags']}"
        for c in o["components"]:
            if c not in (doc.get("components", {}).get("schemas") or {}):
                yield "C15/component-missing", f"{where}: component {c} is not registered"
    # probes: a request built from the documented operation reaches exactly the registered handler
    for pr in rec["probes"]:
        counters["probes"] += 1
        if pr["registered_handler"] is None:
            continue
        if pr["handler_ran"] != [pr["registered_handler"]]:
            yield "C15/documented-operation-unreachable", f"{pr['method']} {pr['template']}: request {pr['request']!r} built from the document ran handlers {pr['handler_ran']} (status {pr['status']}), registered h{pr['registered_handler']}"


def main(files):
    counters = {"schemas_validated": 0, "refs_resolved": 0, "operations": 0, "probes": 0, "documents_judged": 0}
    viols, per_sig = [], {}
    n = 0
    for f in files:
        for line in open(f):
            if not line.strip():
                continue
            rec = json.loads(line)
            n += 1
            counters["documents_judged"] += 1
            for sig, what in judge(rec, counters):
                per_sig[sig] = per_sig.get(sig, 0) + 1
                if per_sig[sig] <= 2:
                    viols.append({"sig": sig, "what": what, "case": {"case_index": rec["case_index"], "operations": rec["operations"], "document_paths": list(rec["document"].get("paths", {}).keys())}})
    print(json.dumps({"evaluations": n, "violations": viols, "viol_per_sig": per_sig, "counters": counters}))


if __name__ == "__main__":
    main(sys.argv[1:])
