#!/usr/bin/env python3
"""Judge for C16. Input: a directory holding meta.json (generator's description per type), out.jsonl (what the generated
programs printed: schema, serialised instances, requiredness probes) and rejected.json (types the derive refused to
compile, with rustc's message). Checks, per type, with the jsonschema package (Draft 2020-12):

  * the schema is a valid 2020-12 schema and every value serde wrote validates against it;
  * closed-world: every key serde wrote, at any depth, is a declared property (the same validation with
    additionalProperties:false injected at every object schema with properties);
  * per object schema node reached by instances: declared properties == keys serde wrote there;
    required == { keys serde always writes and cannot read without } (probes delete one key and call from_value).

Prints {"evaluations", "violations", "viol_per_sig", "counters", "hashes", "samples"}.
Signatures name the failure class, not the type, so that known findings can be matched narrowly."""
import sys, json, os, copy, hashlib, re
from jsonschema import Draft202012Validator


def closed(schema):
    s = copy.deepcopy(schema)

    def rec(n):
        if isinstance(n, dict):
            if isinstance(n.get("properties"), dict) and "additionalProperties" not in n:
                n["additionalProperties"] = False
            elif n.get("type") == "object" and "properties" not in n and "additionalProperties" not in n:
                n["additionalProperties"] = False
            for v in n.values():
                rec(v)
        elif isinstance(n, list):
            for v in n:
                rec(v)
    rec(s)
    return s


def jtype(v):
    return {type(None): "null", bool: "boolean", int: "integer", float: "number", str: "string", list: "array", dict: "object"}[type(v)]


def leaf(err):
    """deepest, most specific sub-error"""
    cur = err
    while cur.context:
        cur = sorted(cur.context, key=lambda e: (-len(e.absolute_path), len(e.context)))[0]
    return cur


def valid(schema, value):
    try:
        return Draft202012Validator(schema).is_valid(value)
    except Exception:
        return False


def walk(schema, value, path, visit, amb):
    """match instance fragments to object schema nodes; visit(schema_node, value, path)"""
    if not isinstance(schema, dict):
        return
    for comb in ("oneOf", "anyOf"):
        if comb in schema:
            m = [b for b in schema[comb] if valid(b, value)]
            if len(m) == 1:
                walk(m[0], value, path, visit, amb)
            elif len(m) > 1:
                amb[0] += 1
            return
    if isinstance(value, dict) and (schema.get("type") == "object" or "properties" in schema):
        visit(schema, value, path)
        for k, v in value.items():
            sub = (schema.get("properties") or {}).get(k)
            if sub is not None:
                walk(sub, v, path + [k], visit, amb)
    elif isinstance(value, list) and isinstance(schema.get("items"), dict):
        for i, v in enumerate(value):
            walk(schema["items"], v, path + [i], visit, amb)


NOTHING = object()


def prune_nulls(v):
    if isinstance(v, dict):
        return {k: prune_nulls(c) for k, c in v.items() if c is not None}
    if isinstance(v, list):
        return [prune_nulls(c) for c in v]
    return v


def contains_null(v):
    if v is None:
        return True
    if isinstance(v, dict):
        return any(contains_null(c) for c in v.values())
    if isinstance(v, list):
        return any(contains_null(c) for c in v)
    return False


def attr_class(meta, pick):
    return ",".join(a for a in meta["attrs"] if a.startswith(pick)) or "-"


def judge(rec, meta, counters):
    """yields (sig, what)"""
    schema, instances, probes = rec["schema"], rec["instances"], rec["probes"]
    shape = meta["shape"]
    tagging = attr_class(meta, "tagging:").replace("tagging:", "")
    try:
        Draft202012Validator.check_schema(schema)
    except Exception as e:
        yield "C16/schema-invalid", str(e).split("\n")[0][:200]
        return
    counters["schemas_valid_2020_12"] += 1
    v_open = Draft202012Validator(schema)
    v_closed = Draft202012Validator(closed(schema))
    # serde reads back what it wrote (sanity of the probe machinery; not a property of the derive)
    for p in probes:
        if p["key"] is None and p["path"] is None and not p["ok_without"]:
            counters["serde_does_not_read_back_own_output"] += 1
    reads_back = {p["instance"] for p in probes if p["key"] is None and p.get("ok_without")}
    usable = {}
    for n, inst in enumerate(instances):
        counters["instances_validated"] += 1
        errs = list(v_open.iter_errors(inst))
        if errs:
            # would it validate if the schema language admitted null? (drop null-valued keys: they are never required)
            pruned = prune_nulls(inst)
            if inst is None or (pruned is not NOTHING and v_open.is_valid(pruned)):
                counters["instances_rejected_only_for_null"] += 1
                yield f"C16/instance-rejected:null-not-admitted:{'whole-value' if inst is None else 'option-field'}", f"instance {n} {json.dumps(inst, ensure_ascii=False)[:200]} does not validate only because a null ({'the whole value: unit struct, untagged unit variant or newtype of None' if inst is None else 'Option::None in a field'}) is not admitted: {leaf(errs[0]).message[:120]}"
                if inst is None:
                    continue
                inst = pruned
            else:
                l = leaf(errs[0])
                cls = f"{l.validator}:{jtype(l.instance)}"
                yield f"C16/instance-rejected:{shape}:{tagging}:{cls}", f"instance {n} {json.dumps(inst, ensure_ascii=False)[:200]} does not validate: {l.message[:160]} at {list(l.absolute_path)}"
                continue
        errs = list(v_closed.iter_errors(inst))
        if errs and contains_null(inst) and v_closed.is_valid(prune_nulls(inst)):
            # validated only through a catch-all branch (an empty variant's open object); with the nulls gone it matches its own variant
            counters["instances_rejected_only_for_null"] += 1
            yield "C16/instance-rejected:null-not-admitted:option-field", f"instance {n} {json.dumps(inst, ensure_ascii=False)[:200]} matches its own variant's schema only once its nulls (Option::None) are dropped"
            inst = prune_nulls(inst)
            errs = []
        usable[n] = inst
        if errs:
            l = leaf(errs[0])
            yield f"C16/key-not-declared:{shape}:{tagging}", f"instance {n} {json.dumps(inst, ensure_ascii=False)[:200]} writes a key the schema does not declare: {l.message[:160]} at {list(l.absolute_path)}"
    # per schema node
    nodes = {}
    amb = [0]

    def visit(node, value, path, n=[0]):
        d = nodes.setdefault(id(node), {"node": node, "objs": []})
        d["objs"].append((n[0], tuple(path), value))
    for n, inst in usable.items():
        visit.__defaults__[0][0] = n
        walk(schema, inst, [], visit, amb)
    counters["ambiguous_oneOf_matches_skipped"] += amb[0]
    probe_ix = {}
    for p in probes:
        if p["key"] is not None and p["instance"] in reads_back and not (p.get("ok_without") and p.get("read_as_the_same_value") is False):
            probe_ix[(p["instance"], tuple(p["path"]), p["key"])] = p["ok_without"]
    for d in nodes.values():
        node = d["node"]
        counters["object_schema_nodes_reached"] += 1
        props = set((node.get("properties") or {}).keys())
        required = set(node.get("required") or [])
        written = set()
        always = None
        need = {}
        for (n, path, value) in d["objs"]:
            ks = set(value.keys())
            written |= ks
            always = ks if always is None else (always & ks)
            for k in ks:
                ok = probe_ix.get((n, path, k))
                if ok is not None:
                    counters["requiredness_probes"] += 1
                    need.setdefault(k, []).append(not ok)
        full_seen = any(n == 0 for (n, _, _) in d["objs"])  # instance 0 populates every optional
        missing = written - props
        if missing:
            yield f"C16/properties-differ:{shape}:{tagging}:written-not-declared", f"serde writes {sorted(missing)} but the schema declares {sorted(props)}"
        extra = props - written
        if extra and full_seen:
            yield f"C16/properties-differ:{shape}:{tagging}:declared-not-written", f"schema declares {sorted(extra)} which serde never wrote (wrote {sorted(written)})"
        for k in sorted(props & written):
            nd = need.get(k)
            if not nd:
                continue
            cannot_default = all(nd)
            can_default = not any(nd)
            cannot_omit = k in always
            if cannot_default and cannot_omit and k not in required:
                yield f"C16/required-differ:{shape}:{tagging}:under", f"{k!r}: serde always writes it and cannot read without it, but the schema does not require it (required={sorted(required)})"
            elif (can_default or not cannot_omit) and k in required:
                why = "serde reads a value without it" if can_default else "serde omits it when serialising"
                yield f"C16/required-differ:{shape}:{tagging}:over", f"{k!r} is required by the schema but {why}"
            counters["requiredness_compared"] += 1
        for k in required - props:
            yield f"C16/required-differ:{shape}:{tagging}:required-undeclared", f"{k!r} required but not a property"
    if shape == "enum_unit":
        want = sorted(set(i for i in instances if isinstance(i, str)))
        have = schema.get("enum")
        if isinstance(have, list):
            counters["unit_enum_name_sets_compared"] += 1
            if not set(want) <= set(have):
                yield "C16/enum-names-differ", f"serde writes {want}, schema enumerates {have}"


def main():
    d = sys.argv[1]
    meta = json.load(open(os.path.join(d, "meta.json")))
    rejected = json.load(open(os.path.join(d, "rejected.json")))
    from collections import Counter
    counters = Counter()
    viols, per_sig, hashes, samples = [], Counter(), set(), []
    evaluations = 0
    for rid, msg in sorted(rejected.items(), key=lambda kv: int(kv[0])):
        m = meta[rid]
        evaluations += 1
        cls = re.sub(r"`[^`]*`", "`_`", msg)[:80]
        cls = re.sub(r"[^A-Za-z0-9_` -]", "", cls).strip().replace(" ", "-")
        sig = f"C16/derive-rejected:{m['shape']}:{cls}"
        per_sig[sig] += 1
        viols.append({"sig": sig, "what": f"derive(Schema) refuses a type serde accepts: {msg[:300]}", "case": {"case_index": int(rid), "attrs": m["attrs"], "shape": m["shape"]}})
    for line in open(os.path.join(d, "out.jsonl")):
        line = line.strip()
        if not line.startswith("{"):
            continue
        rec = json.loads(line)
        m = meta[str(rec["id"])]
        evaluations += 1
        counters["types_judged"] += 1
        counters["shape:" + m["shape"]] += 1
        for a in m["attrs"]:
            counters["attr:" + a] += 1
        hashes.add(hashlib.sha1(("|".join(m["attrs"]) + m["shape"]).encode()).hexdigest()[:16])
        seen = set()
        for sig, what in judge(rec, m, counters):
            per_sig[sig] += 1
            if sig in seen:
                continue
            seen.add(sig)
            viols.append({"sig": sig, "what": what, "case": {"case_index": rec["id"], "attrs": m["attrs"], "shape": m["shape"], "schema": rec["schema"]}})
        if len(samples) < 4 and not seen:
            samples.append({"type": rec["id"], "attrs": m["attrs"], "schema": rec["schema"], "instance": rec["instances"][0]})
    print(json.dumps({"evaluations": evaluations, "violations": viols, "viol_per_sig": per_sig, "counters": counters, "hashes": sorted(hashes), "samples": samples}))


if __name__ == "__main__":
    main()
