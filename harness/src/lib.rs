//! vh – verification harness for ohkami (runtime monitors). See /verif/DESIGN.md.
#![allow(clippy::all)]

pub mod rng;
pub mod exec;
pub mod memconn;
pub mod report;
pub mod trace;
pub mod httpref;
pub mod web;
pub mod reqref;
pub mod catalog;
pub mod appgen;
pub mod tuples_gen;
pub mod engines;
pub mod fuzz;
