//! Application descriptions -> real `Ohkami`s (in any registration order) + the data the
//! reference models of C01 / C04 / C14 need.

use crate::rng::Rng;
use crate::trace::{self, Ev};
use ohkami::__verif__ as hook;
use ohkami::fang::FangAction;
use ohkami::{Fang, FangProc, Ohkami, Request, Response, Route};
use std::sync::Arc;

pub const ROUTE_METHODS: [&str; 5] = ["GET", "PUT", "POST", "PATCH", "DELETE"];

#[derive(Clone, Debug, PartialEq, Eq, Hash)]
pub enum Seg {
    S(String),
    P(String),
}
pub type RouteT = Vec<Seg>;

pub fn route_literal(r: &RouteT) -> String {
    if r.is_empty() {
        return "/".into();
    }
    let mut s = String::new();
    for seg in r {
        s.push('/');
        match seg {
            Seg::S(x) => s.push_str(x),
            Seg::P(x) => {
                s.push(':');
                s.push_str(x)
            }
        }
    }
    s
}
pub fn n_params(r: &RouteT) -> usize {
    r.iter().filter(|s| matches!(s, Seg::P(_))).count()
}

#[derive(Clone, Debug)]
pub struct FangDesc {
    pub id: u32,
    /// false: a `FangAction` (fore/back), true: a hand-written `Fang` + `FangProc`
    pub raw: bool,
}

#[derive(Clone, Copy, Debug, PartialEq)]
pub enum HKind {
    /// `|req: &Request|`, reports `req.path.params()`
    Req,
    /// `|p: String|`
    P1,
    /// `|(a, b): (String, String)|`
    P2,
    /// `||`
    P0,
}

#[derive(Clone, Debug)]
pub struct HandlerDesc {
    pub id: u32,
    pub kind: HKind,
    pub local: Vec<FangDesc>,
}

#[derive(Clone, Debug)]
pub enum ItemDesc {
    Routes { route: RouteT, methods: Vec<(usize, HandlerDesc)> },
    Mount { prefix: RouteT, app: AppDesc },
}

#[derive(Clone, Debug)]
pub struct AppDesc {
    pub id: u32,
    pub fangs: Vec<FangDesc>,
    pub items: Vec<ItemDesc>,
}

/* ------------------------------ instrumented fangs ------------------------------ */

pub const EARLY_HEADER: &str = "X-Early";

fn wants_early(req: &Request, id: u32) -> bool {
    match req.headers.get(EARLY_HEADER) {
        Some(v) => v.split(',').any(|x| x.trim().parse::<u32>().ok() == Some(id)),
        None => false,
    }
}
fn early_response(id: u32) -> Response {
    Response::Im_a_teapot().with_text(format!("early:{id}"))
}

#[derive(Clone)]
pub struct ActFang(pub u32);
impl FangAction for ActFang {
    async fn fore<'a>(&'a self, req: &'a mut Request) -> Result<(), Response> {
        if wants_early(req, self.0) {
            trace::push(Ev::Early(self.0));
            return Err(early_response(self.0));
        }
        trace::push(Ev::Enter(self.0));
        Ok(())
    }
    async fn back<'a>(&'a self, _res: &'a mut Response) {
        trace::push(Ev::Leave(self.0));
    }
}

#[derive(Clone)]
pub struct RawFang(pub u32);
pub struct RawFangProc<I: FangProc> {
    id: u32,
    inner: I,
}
impl<I: FangProc> FangProc for RawFangProc<I> {
    async fn bite<'b>(&'b self, req: &'b mut Request) -> Response {
        if wants_early(req, self.id) {
            trace::push(Ev::Early(self.id));
            return early_response(self.id);
        }
        trace::push(Ev::Enter(self.id));
        let res = self.inner.bite(req).await;
        trace::push(Ev::Leave(self.id));
        res
    }
}
impl<I: FangProc> Fang<I> for RawFang {
    type Proc = RawFangProc<I>;
    fn chain(&self, inner: I) -> Self::Proc {
        RawFangProc { id: self.0, inner }
    }
}

/// One fang type whose behaviour (action-style or raw) is chosen at run time would not exercise
/// the `FangAction` blanket impl, so tuples are built from the two real types in fixed patterns:
/// pattern 0 = all ActFang, 1 = all RawFang, 2 = A R A R .., 3 = R A R A ..
pub fn pattern_is_raw(pattern: u8, index: usize) -> bool {
    match pattern {
        0 => false,
        1 => true,
        2 => index % 2 == 1,
        _ => index % 2 == 0,
    }
}

macro_rules! fangs_tuple {
    ($ids:expr; $( $t:ident ),* ) => {{
        let mut it = $ids.iter();
        let tup = ( $( $t(*it.next().unwrap()), )* );
        let arc: Arc<dyn ohkami::__internal__::Fangs> = Arc::new(tup);
        arc
    }};
}

pub fn build_fangs(fangs: &[FangDesc]) -> Option<Arc<dyn ohkami::__internal__::Fangs>> {
    use ActFang as A;
    use RawFang as R;
    if fangs.is_empty() {
        return None;
    }
    let ids: Vec<u32> = fangs.iter().map(|f| f.id).collect();
    let raws: Vec<bool> = fangs.iter().map(|f| f.raw).collect();
    let pat = (0u8..4).find(|p| raws.iter().enumerate().all(|(i, r)| pattern_is_raw(*p, i) == *r)).expect("fang kinds must follow one of the 4 patterns");
    Some(match (ids.len(), pat) {
        (1, 0) | (1, 2) => fangs_tuple!(ids; A),
        (1, _) => fangs_tuple!(ids; R),
        (2, 0) => fangs_tuple!(ids; A, A),
        (2, 1) => fangs_tuple!(ids; R, R),
        (2, 2) => fangs_tuple!(ids; A, R),
        (2, _) => fangs_tuple!(ids; R, A),
        (3, 0) => fangs_tuple!(ids; A, A, A),
        (3, 1) => fangs_tuple!(ids; R, R, R),
        (3, 2) => fangs_tuple!(ids; A, R, A),
        (3, _) => fangs_tuple!(ids; R, A, R),
        (4, 0) => fangs_tuple!(ids; A, A, A, A),
        (4, 1) => fangs_tuple!(ids; R, R, R, R),
        (4, 2) => fangs_tuple!(ids; A, R, A, R),
        (4, _) => fangs_tuple!(ids; R, A, R, A),
        (5, 0) => fangs_tuple!(ids; A, A, A, A, A),
        (5, 1) => fangs_tuple!(ids; R, R, R, R, R),
        (5, 2) => fangs_tuple!(ids; A, R, A, R, A),
        (5, _) => fangs_tuple!(ids; R, A, R, A, R),
        (6, 0) => fangs_tuple!(ids; A, A, A, A, A, A),
        (6, 1) => fangs_tuple!(ids; R, R, R, R, R, R),
        (6, 2) => fangs_tuple!(ids; A, R, A, R, A, R),
        (6, _) => fangs_tuple!(ids; R, A, R, A, R, A),
        (7, 0) => fangs_tuple!(ids; A, A, A, A, A, A, A),
        (7, 1) => fangs_tuple!(ids; R, R, R, R, R, R, R),
        (7, 2) => fangs_tuple!(ids; A, R, A, R, A, R, A),
        (7, _) => fangs_tuple!(ids; R, A, R, A, R, A, R),
        (8, 0) => fangs_tuple!(ids; A, A, A, A, A, A, A, A),
        (8, 1) => fangs_tuple!(ids; R, R, R, R, R, R, R, R),
        (8, 2) => fangs_tuple!(ids; A, R, A, R, A, R, A, R),
        (8, _) => fangs_tuple!(ids; R, A, R, A, R, A, R, A),
        _ => panic!("at most 8 fangs"),
    })
}

/* ------------------------------ instrumented handlers ------------------------------ */

fn leak(s: String) -> &'static str {
    Box::leak(s.into_boxed_str())
}

fn respond(id: u32) -> String {
    format!("h{id}")
}

macro_rules! with_locals {
    ($hs:expr, $m:ident, $local:expr, $h:expr) => {{
        let l = $local;
        match l.len() {
            0 => $hs.$m($h),
            1 => {
                if l[0].raw { $hs.$m((RawFang(l[0].id), $h)) } else { $hs.$m((ActFang(l[0].id), $h)) }
            }
            _ => {
                match (l[0].raw, l[1].raw) {
                    (false, false) => $hs.$m((ActFang(l[0].id), ActFang(l[1].id), $h)),
                    (false, true) => $hs.$m((ActFang(l[0].id), RawFang(l[1].id), $h)),
                    (true, false) => $hs.$m((RawFang(l[0].id), ActFang(l[1].id), $h)),
                    (true, true) => $hs.$m((RawFang(l[0].id), RawFang(l[1].id), $h)),
                }
            }
        }
    }};
}

macro_rules! add_method {
    ($hs:expr, $m:ident, $h:expr) => {{
        let hd: &HandlerDesc = $h;
        let id = hd.id;
        match hd.kind {
            HKind::Req => with_locals!($hs, $m, &hd.local, move |req: &Request| {
                let ps: Vec<String> = req.path.params().map(|c| c.into_owned()).collect();
                trace::push(Ev::Handler(id, ps));
                async move { respond(id) }
            }),
            HKind::P0 => with_locals!($hs, $m, &hd.local, move || {
                trace::push(Ev::Handler(id, vec![]));
                async move { respond(id) }
            }),
            HKind::P1 => with_locals!($hs, $m, &hd.local, move |p: String| {
                trace::push(Ev::Handler(id, vec![p]));
                async move { respond(id) }
            }),
            HKind::P2 => with_locals!($hs, $m, &hd.local, move |(a, b): (String, String)| {
                trace::push(Ev::Handler(id, vec![a, b]));
                async move { respond(id) }
            }),
        }
    }};
}

pub fn build_handler_set(route: &RouteT, methods: &[(usize, HandlerDesc)]) -> hook::HandlerSet {
    let lit = leak(route_literal(route));
    let mut hs: Option<hook::HandlerSet> = None;
    for (m, h) in methods {
        hs = Some(match (hs, *m) {
            (None, 0) => add_method!(lit, GET, h),
            (None, 1) => add_method!(lit, PUT, h),
            (None, 2) => add_method!(lit, POST, h),
            (None, 3) => add_method!(lit, PATCH, h),
            (None, _) => add_method!(lit, DELETE, h),
            (Some(s), 0) => add_method!(s, GET, h),
            (Some(s), 1) => add_method!(s, PUT, h),
            (Some(s), 2) => add_method!(s, POST, h),
            (Some(s), 3) => add_method!(s, PATCH, h),
            (Some(s), _) => add_method!(s, DELETE, h),
        });
    }
    hs.expect("a Routes item has at least one method")
}

/// build the real application; `order`: permutation of item indices per application (by app id)
pub fn build(app: &AppDesc, order: &dyn Fn(u32, usize) -> Vec<usize>) -> Ohkami {
    build_opts(app, order, false)
}

/// `prefer_tuple`: wherever an application's item list is of one type (<= 12 items) and its fangs are all `ActFang`s,
/// construct it through the real `Ohkami::new((f1.., r1..))` tuple impls instead of the `assemble` hook
pub fn build_opts(app: &AppDesc, order: &dyn Fn(u32, usize) -> Vec<usize>, prefer_tuple: bool) -> Ohkami {
    if prefer_tuple && tuple_eligible(app) {
        return build_with_tuple_api(app, order, true).unwrap();
    }
    let fangs = build_fangs(&app.fangs);
    let idx = order(app.id, app.items.len());
    let mut items = vec![];
    for i in idx {
        match &app.items[i] {
            ItemDesc::Routes { route, methods } => items.push(hook::Item::Handlers(build_handler_set(route, methods))),
            ItemDesc::Mount { prefix, app } => {
                let sub = build_opts(app, order, prefer_tuple);
                items.push(hook::Item::By(leak(route_literal(prefix)).By(sub)));
            }
        }
    }
    hook::assemble(fangs, items)
}

pub fn tuple_eligible(app: &AppDesc) -> bool {
    !app.items.is_empty()
        && app.items.len() <= 12
        && app.fangs.iter().all(|f| !f.raw)
        && (app.items.iter().all(|i| matches!(i, ItemDesc::Routes { .. })) || app.items.iter().all(|i| matches!(i, ItemDesc::Mount { .. })))
}

/* ------------------------------ flattening for the reference models ------------------------------ */

#[derive(Clone, Debug)]
pub struct FlatRoute {
    pub full: RouteT,
    /// method index into ROUTE_METHODS
    pub method: usize,
    pub handler: HandlerDesc,
    /// ids of the applications from the root to the one that registered the route
    pub apps: Vec<u32>,
}
#[derive(Clone, Debug)]
pub struct FlatApp {
    pub id: u32,
    pub prefix: RouteT,
    pub fangs: Vec<FangDesc>,
    /// ids from the root down to this app (inclusive)
    pub chain: Vec<u32>,
}

pub fn flatten(app: &AppDesc) -> (Vec<FlatRoute>, Vec<FlatApp>) {
    fn go(app: &AppDesc, prefix: &RouteT, chain: &Vec<u32>, routes: &mut Vec<FlatRoute>, apps: &mut Vec<FlatApp>) {
        let mut chain = chain.clone();
        chain.push(app.id);
        apps.push(FlatApp { id: app.id, prefix: prefix.clone(), fangs: app.fangs.clone(), chain: chain.clone() });
        for it in &app.items {
            match it {
                ItemDesc::Routes { route, methods } => {
                    let mut full = prefix.clone();
                    full.extend(route.iter().cloned());
                    for (m, h) in methods {
                        routes.push(FlatRoute { full: full.clone(), method: *m, handler: h.clone(), apps: chain.clone() });
                    }
                }
                ItemDesc::Mount { prefix: p, app: sub } => {
                    let mut full = prefix.clone();
                    full.extend(p.iter().cloned());
                    go(sub, &full, &chain, routes, apps);
                }
            }
        }
    }
    let (mut r, mut a) = (vec![], vec![]);
    go(app, &vec![], &vec![], &mut r, &mut a);
    (r, a)
}

/* ------------------------------ generation helpers ------------------------------ */

pub const STATIC_NAMES: [&str; 22] = [
    "a", "ab", "abc", "b", "user", "users", "users2", "u", "x.y", "a-b", "a_b", "v1", "v2", "api", "static", "A", "Ab", "0", "42", "index.html", "x", "y",
];
pub const PARAM_NAMES: [&str; 5] = ["id", "p", "name", "x", "user_id"];

pub struct IdGen {
    pub next_handler: u32,
    pub next_fang: u32,
    pub next_app: u32,
}
impl IdGen {
    pub fn new() -> Self {
        IdGen { next_handler: 1, next_fang: 1, next_app: 1 }
    }
    pub fn handler(&mut self) -> u32 {
        self.next_handler += 1;
        self.next_handler - 1
    }
    pub fn fang(&mut self) -> u32 {
        self.next_fang += 1;
        self.next_fang - 1
    }
    pub fn app(&mut self) -> u32 {
        self.next_app += 1;
        self.next_app - 1
    }
}

pub fn gen_route(rng: &mut Rng, max_depth: usize, max_params: usize) -> RouteT {
    let depth = *rng.pick_weighted(&[(2, 0usize), (6, 1), (6, 2), (3, 3), (1, 4)]);
    let depth = depth.min(max_depth);
    let mut r = vec![];
    let mut params = 0;
    for _ in 0..depth {
        if params < max_params && rng.chance(1, 4) {
            r.push(Seg::P(rng.pick(&PARAM_NAMES).to_string()));
            params += 1;
        } else {
            r.push(Seg::S(rng.pick(&STATIC_NAMES).to_string()));
        }
    }
    r
}

pub fn gen_fangs(rng: &mut Rng, ids: &mut IdGen, max: usize) -> Vec<FangDesc> {
    let n = *rng.pick_weighted(&[(4, 0usize), (5, 1), (4, 2), (2, 3), (1, 5), (1, 8)]);
    let n = n.min(max);
    let pat = rng.below(4) as u8;
    (0..n).map(|i| FangDesc { id: ids.fang(), raw: pattern_is_raw(pat, i) }).collect()
}

/// pattern-level equality of two routes (param names do not matter)
pub fn same_shape(a: &RouteT, b: &RouteT) -> bool {
    a.len() == b.len()
        && a.iter().zip(b).all(|(x, y)| match (x, y) {
            (Seg::S(p), Seg::S(q)) => p == q,
            (Seg::P(_), Seg::P(_)) => true,
            _ => false,
        })
}
/// is `p` a pattern-prefix of `r` (param ~ param, static = static)?
pub fn shape_prefix(p: &RouteT, r: &RouteT) -> bool {
    p.len() <= r.len() && same_shape(p, &r[..p.len()].to_vec())
}
/// could the two patterns match a common path up to min length? (param overlaps anything)
pub fn overlaps_prefix(p: &RouteT, r: &RouteT) -> bool {
    let n = p.len().min(r.len());
    (0..n).all(|i| match (&p[i], &r[i]) {
        (Seg::S(a), Seg::S(b)) => a == b,
        _ => true,
    })
}

/* ------------------------------ the real tuple API ------------------------------ */

macro_rules! tuple_new {
    ($v:expr; $( $i:ident ),+ ) => {{
        let mut it = $v.into_iter();
        $( let $i = it.next().unwrap(); )+
        Ohkami::new(( $( $i, )+ ))
    }};
}
macro_rules! tuple_by_len {
    ($v:expr) => {
        match $v.len() {
            1 => tuple_new!($v; a),
            2 => tuple_new!($v; a, b),
            3 => tuple_new!($v; a, b, c),
            4 => tuple_new!($v; a, b, c, d),
            5 => tuple_new!($v; a, b, c, d, e),
            6 => tuple_new!($v; a, b, c, d, e, f),
            7 => tuple_new!($v; a, b, c, d, e, f, g),
            8 => tuple_new!($v; a, b, c, d, e, f, g, h),
            9 => tuple_new!($v; a, b, c, d, e, f, g, h, i),
            10 => tuple_new!($v; a, b, c, d, e, f, g, h, i, j),
            11 => tuple_new!($v; a, b, c, d, e, f, g, h, i, j, k),
            12 => tuple_new!($v; a, b, c, d, e, f, g, h, i, j, k, l),
            n => panic!("tuple API takes 1..=12 items, got {n}"),
        }
    };
}

/// `Ohkami::new((f1, .., fk, r1, .., rn))` through the real tuple impls
pub fn build_with_tuple_api(app: &AppDesc, order: &dyn Fn(u32, usize) -> Vec<usize>, nested_too: bool) -> Option<Ohkami> {
    if !tuple_eligible(app) {
        return None;
    }
    let idx = order(app.id, app.items.len());
    let fang_ids: Vec<u32> = app.fangs.iter().map(|f| f.id).collect();
    if app.items.iter().all(|i| matches!(i, ItemDesc::Routes { .. })) {
        let v: Vec<hook::HandlerSet> = idx.iter().map(|&i| match &app.items[i] { ItemDesc::Routes { route, methods } => build_handler_set(route, methods), _ => unreachable!() }).collect();
        Some(if fang_ids.is_empty() { tuple_by_len!(v) } else { crate::tuples_gen::tuple_fangs_handler_sets(&fang_ids, v) })
    } else {
        let v: Vec<hook::ByAnother> = idx.iter().map(|&i| match &app.items[i] { ItemDesc::Mount { prefix, app } => leak(route_literal(prefix)).By(build_opts(app, order, nested_too)), _ => unreachable!() }).collect();
        Some(if fang_ids.is_empty() { tuple_by_len!(v) } else { crate::tuples_gen::tuple_fangs_mounts(&fang_ids, v) })
    }
}
