//! C14 – CORS fang against a reference model fed with the policy and the registered route table.

use crate::appgen::*;
use crate::engines::c01::path_segments;
use crate::httpref::parse_response;
use crate::report::{catch, Args, Report};
use crate::rng::Rng;
use crate::web::{self, Step};
use ohkami::fang::CORS;
use ohkami::__verif__ as hook;
use ohkami::Route;
use serde_json::json;
use std::sync::Arc;

#[derive(Clone, Debug)]
struct Policy {
    origin: &'static str,
    credentials: bool,
    allow_headers: Option<usize>,
    expose: Option<usize>,
    max_age: Option<u32>,
}
const ALLOW_LISTS: [&[&str]; 2] = [&["Content-Type", "X-Requested-With"], &["Authorization"]];
const EXPOSE_LISTS: [&[&str]; 2] = [&["X-Total-Count"], &["ETag", "X-Request-ID", "Link"]];

fn build_cors(p: &Policy) -> CORS {
    let mut c = CORS::new(p.origin);
    if p.credentials {
        c = c.AllowCredentials();
    }
    match p.allow_headers {
        Some(0) => c = c.AllowHeaders(["Content-Type", "X-Requested-With"]),
        Some(_) => c = c.AllowHeaders(["Authorization"]),
        None => {}
    }
    match p.expose {
        Some(0) => c = c.ExposeHeaders(["X-Total-Count"]),
        Some(_) => c = c.ExposeHeaders(["ETag", "X-Request-ID", "Link"]),
        None => {}
    }
    if let Some(m) = p.max_age {
        c = c.MaxAge(m);
    }
    c
}

fn leak(s: String) -> &'static str {
    Box::leak(s.into_boxed_str())
}

fn build_app(app: &AppDesc, cors_at: u32, cors: &CORS, order_seed: u64) -> ohkami::Ohkami {
    let mut idx: Vec<usize> = (0..app.items.len()).collect();
    Rng::derive(order_seed, 14, app.id as u64).shuffle(&mut idx);
    let mut items = vec![];
    for i in idx {
        match &app.items[i] {
            ItemDesc::Routes { route, methods } => items.push(hook::Item::Handlers(build_handler_set(route, methods))),
            ItemDesc::Mount { prefix, app: sub } => items.push(hook::Item::By(leak(route_literal(prefix)).By(build_app(sub, cors_at, cors, order_seed)))),
        }
    }
    let fangs: Option<Arc<dyn ohkami::__internal__::Fangs>> = if app.id == cors_at { Some(Arc::new(cors.clone())) } else { None };
    hook::assemble(fangs, items)
}

/// routes with method subsets; the same route may be split over several items of one application, and a mount point may carry routes of
/// the mounted application at "/"
/// `split`: the methods of one full path may also be split over applications - a route of the parent at a mount prefix whose mounted
/// application has a route at "/", and two applications mounted at the same prefix (a shape ohkami's own tests use)
fn gen_app(rng: &mut Rng, ids: &mut IdGen, depth: usize, split: bool, root_only: bool) -> AppDesc {
    let id = ids.app();
    let mut items: Vec<ItemDesc> = vec![];
    let mut shapes: Vec<(RouteT, Vec<usize>)> = vec![];
    let mut mounts: Vec<RouteT> = vec![];
    if split && depth > 0 {
        // a mounted application of a split configuration has a route at its own root
        let m = rng.below(5);
        shapes.push((vec![], vec![m]));
        items.push(ItemDesc::Routes { route: vec![], methods: vec![(m, HandlerDesc { id: ids.handler(), kind: HKind::Req, local: vec![] })] });
        if root_only {
            // an application that shares its mount prefix with an earlier one has nothing else: ohkami merges the root of a mounted
            // application into an existing node but refuses (loudly, at start-up) two subtrees that begin with the same segment
            return AppDesc { id, fangs: vec![], items };
        }
    }
    for _ in 0..rng.range(1, 5) {
        if depth < 2 && rng.chance(1, if split { 2 } else { 4 }) {
            let prefix = vec![Seg::S(rng.pick(if split { &["api", "m"][..] } else { &["api", "v1", "admin", "m"][..] }).to_string())];
            let clash = mounts.contains(&prefix) || shapes.iter().any(|(r, _)| shape_prefix(&prefix, r));
            // split: the same prefix twice, or a route of this application exactly at the prefix, is allowed
            let tolerated = split && !shapes.iter().any(|(r, _)| shape_prefix(&prefix, r) && r.len() > prefix.len());
            if clash && !tolerated {
                continue;
            }
            let second_at_this_prefix = mounts.contains(&prefix);
            mounts.push(prefix.clone());
            items.push(ItemDesc::Mount { prefix, app: gen_app(rng, ids, depth + 1, split, second_at_this_prefix) });
            continue;
        }
        let route: RouteT = match rng.below(if split { 8 } else { 6 }) {
            0 => vec![],
            1 => vec![Seg::S("users".into())],
            2 => vec![Seg::S("users".into()), Seg::P("id".into())],
            3 => vec![Seg::S("posts".into())],
            4 => vec![Seg::S("posts".into()), Seg::P("id".into()), Seg::S("comments".into())],
            5 => vec![Seg::S(rng.pick(&["a", "b", "health"]).to_string())],
            _ => vec![Seg::S(rng.pick(&["api", "m"]).to_string())],
        };
        if mounts.iter().any(|m| shape_prefix(m, &route) && !(split && m.len() == route.len())) {
            continue;
        }
        let used: Vec<usize> = shapes.iter().find(|(r, _)| same_shape(r, &route)).map(|(_, m)| m.clone()).unwrap_or_default();
        let mut ms: Vec<usize> = (0..5).filter(|m| !used.contains(m)).collect();
        rng.shuffle(&mut ms);
        let k = *rng.pick_weighted(&[(5, 1usize), (3, 2), (1, 3), (1, 5)]);
        let methods: Vec<(usize, HandlerDesc)> = ms.into_iter().take(k).map(|m| (m, HandlerDesc { id: ids.handler(), kind: HKind::Req, local: vec![] })).collect();
        if methods.is_empty() {
            continue;
        }
        match shapes.iter_mut().find(|(r, _)| same_shape(r, &route)) {
            Some(e) => e.1.extend(methods.iter().map(|(m, _)| *m)),
            None => shapes.push((route.clone(), methods.iter().map(|(m, _)| *m).collect())),
        }
        items.push(ItemDesc::Routes { route, methods });
    }
    if items.is_empty() {
        items.push(ItemDesc::Routes { route: vec![Seg::S("only".into())], methods: vec![(0, HandlerDesc { id: ids.handler(), kind: HKind::Req, local: vec![] })] });
    }
    AppDesc { id, fangs: vec![], items }
}

fn matches(route: &RouteT, segs: &[String]) -> bool {
    route.len() == segs.len() && route.iter().zip(segs).all(|(r, s)| match r { Seg::S(x) => x == s, Seg::P(_) => !s.is_empty() })
}

pub fn run(args: &Args, rep: &mut Report) {
    let small = args.flag("small").is_some();
    if args.shard == 0 && args.start == 0 {
        witness(rep);
    }
    let mut case = args.shard;
    while case < args.budget {
        if case >= args.start {
            rep.begin(case);
            let mut rng = Rng::derive(args.seed, 14, case);
            let mut ids = IdGen::new();
            // every fourth case: methods of one path split over applications (route at a mount prefix, two mounts at one prefix)
            let split = case % 4 == 3;
            let mut app = gen_app(&mut rng, &mut ids, 0, split, false);
            if split {
                let (flat, _) = flatten(&app);
                let dup = flat.iter().enumerate().any(|(i, a)| flat[..i].iter().any(|b| b.method == a.method && same_shape(&a.full, &b.full)));
                if dup {
                    // the same (path, method) twice is refused by ohkami, rightly: fall back to the plain generator
                    rep.count("split:discarded-duplicate-route");
                    ids = IdGen::new();
                    app = gen_app(&mut rng, &mut ids, 0, false, false);
                } else {
                    rep.count("split:apps");
                    let several = flat.iter().enumerate().any(|(i, a)| flat[..i].iter().any(|b| same_shape(&a.full, &b.full) && a.apps != b.apps));
                    if several {
                        rep.count("split:apps-with-a-path-shared-by-two-applications");
                    }
                }
            }
            let split_used = split;
            // the full 2x2x2x2x2 policy matrix is walked by case index
            let b = case % 32;
            let origin = if b & 1 == 0 { "*" } else { "https://app.example.com" };
            let policy = Policy { origin, credentials: b & 2 != 0, allow_headers: (b & 4 != 0).then(|| rng.below(2)), expose: (b & 8 != 0).then(|| rng.below(2)), max_age: (b & 16 != 0).then(|| *rng.pick(&[0u32, 600, 86400])) };
            check_app(rep, case, &app, &policy, &mut rng, small, b, split_used);
            rep.end(case);
        }
        case += args.nshards;
    }
}

fn witness(rep: &mut Report) {
    // the same route registered in two items
    let h = |id| HandlerDesc { id, kind: HKind::Req, local: vec![] };
    let app = AppDesc { id: 1, fangs: vec![], items: vec![
        ItemDesc::Routes { route: vec![Seg::S("a".into())], methods: vec![(0, h(1))] },
        ItemDesc::Routes { route: vec![Seg::S("a".into())], methods: vec![(2, h(2))] },
    ] };
    let policy = Policy { origin: "https://app.example.com", credentials: true, allow_headers: None, expose: None, max_age: Some(600) };
    let mut rng = Rng::new(1);
    check_app(rep, u64::MAX, &app, &policy, &mut rng, true, 99, false);
}

fn check_app(rep: &mut Report, case: u64, app: &AppDesc, policy: &Policy, rng: &mut Rng, small: bool, pbits: u64, split: bool) {
    let (routes, apps) = flatten(app);
    // where the fang sits: the root, or a mounted application
    let cors_app = if !split && apps.len() > 1 && rng.chance(1, 3) { rng.pick(&apps[1..]).clone() } else { apps[0].clone() };
    let cors = build_cors(policy);
    let router = match catch(|| hook::Router::new(build_app(app, cors_app.id, &cors, case))) {
        Ok(r) => r,
        Err(p) => {
            rep.eval();
            rep.violation("C14/valid-config-refused", &format!("application refused at start-up: {p}"), json!({"case_index": case}));
            return;
        }
    };
    let desc = json!({"policy": format!("{policy:?}"), "cors_on": format!("app{} at {}", cors_app.id, route_literal(&cors_app.prefix)),
        "routes": routes.iter().map(|r| format!("{} {}", ROUTE_METHODS[r.method], route_literal(&r.full))).collect::<Vec<_>>()});
    // request paths: every route shape instantiated, misses
    let mut shapes: Vec<RouteT> = vec![];
    for r in &routes {
        if !shapes.iter().any(|s| same_shape(s, &r.full)) {
            shapes.push(r.full.clone());
        }
    }
    let mut paths: Vec<String> = shapes.iter().map(|s| if s.is_empty() { "/".to_string() } else { s.iter().map(|x| match x { Seg::S(v) => format!("/{v}"), Seg::P(_) => "/42".to_string() }).collect() }).collect();
    paths.push(format!("{}/nope", if cors_app.prefix.is_empty() { String::new() } else { route_literal(&cors_app.prefix) }));
    paths.push("/zzz".into());
    if small {
        paths.truncate(3);
    }
    let want_acac = policy.credentials && policy.origin != "*";
    for path in &paths {
        let segs = path_segments(path);
        // in the fang's scope?
        let in_scope = cors_app.prefix.len() <= segs.len() && cors_app.prefix.iter().zip(&segs).all(|(p, s)| matches!(p, Seg::S(x) if x == s));
        if !in_scope {
            rep.count("skipped:outside-scope");
            continue;
        }
        let matching: Vec<&FlatRoute> = routes.iter().filter(|r| matches(&r.full, &segs)).collect();
        let mut patterns: Vec<&RouteT> = vec![];
        for m in &matching {
            if !patterns.iter().any(|p| same_shape(p, &m.full)) {
                patterns.push(&m.full);
            }
        }
        if patterns.len() > 1 {
            rep.count("skipped:path-matched-by-several-patterns");
            continue;
        }
        let mut registered: Vec<&'static str> = matching.iter().map(|r| ROUTE_METHODS[r.method]).collect();
        registered.sort();
        registered.dedup();
        let mut advertised: Vec<String> = registered.iter().map(|s| s.to_string()).collect();
        if registered.contains(&"GET") {
            advertised.push("HEAD".into());
        }
        advertised.push("OPTIONS".into());
        advertised.sort();
        let mut reqs: Vec<(&'static str, Option<String>, Option<&'static str>, &'static str)> = vec![]; // (method, ACRM, ACRH, class)
        for m in ["GET", "POST", "PUT", "PATCH", "DELETE", "HEAD"] {
            reqs.push((m, None, None, "simple"));
        }
        reqs.push(("OPTIONS", None, None, "options-without-request-method"));
        for m in ["GET", "POST", "PUT", "PATCH", "DELETE", "HEAD", "OPTIONS", "BREW", "get", "GE", "GET, POST"] {
            // requested header lists: everyday ones, and names over the whole RFC 9110 token alphabet, lists without spaces, upper case, a long list
            let acrh = match rng.below(8) { 0 | 1 => None, 2 => Some("x-custom, content-type"), 3 => Some("Authorization"),
                4 => Some("content-type, x_upload_token"), 5 => Some("x-amz-meta-v1.2,authorization"), 6 => Some("X-Trace~Id, x!#$%&'*+-.^_`|~z"),
                _ => Some("accept,accept-language,content-language,content-type,range,x-requested-with,x-csrf-token,x_a,x.b,x~c") };
            reqs.push(("OPTIONS", Some(m.to_string()), acrh, "preflight"));
        }
        for (method, acrm, acrh, class) in reqs {
            rep.eval();
            // who asks is not the server's business: the policy's headers are the same for the configured origin, for another site, for
            // another spelling of the same site, for `null` and for no Origin at all (the browser does the comparing)
            let (asked_by, asked_class) = *rng.pick(&[(Some("https://app.example.com"), "configured"), (Some("https://app.example.com"), "configured"), (Some("https://evil.example.net"), "another-site"),
                (Some("HTTPS://APP.EXAMPLE.COM"), "upper-case"), (Some("https://app.example.com/"), "trailing-slash"), (Some("null"), "null"), (None, "absent")]);
            rep.count(&format!("request_origin:{asked_class}"));
            let mut hs = vec![("Host", "t")];
            if let Some(o) = asked_by { hs.push(("Origin", o)) }
            if let Some(m) = &acrm { hs.push(("Access-Control-Request-Method", m.as_str())) }
            if let Some(h) = acrh { hs.push(("Access-Control-Request-Headers", h)) }
            let bytes = web::build_request(method, path, &hs, b"");
            let step = web::oneshot(&router, &bytes);
            let cj = |extra: serde_json::Value| json!({"case_index": case, "app": desc, "request": crate::rng::show(&bytes), "registered_here": registered, "detail": extra});
            let resp = match &step {
                Step::Handled(b) | Step::Refused(b) => match parse_response(b, method == "HEAD") {
                    Ok(r) => r,
                    Err(e) => { rep.violation("C14/malformed-response", &e, cj(json!(null))); continue }
                },
                other => { rep.violation(&format!("C14/{}", other.kind()), &format!("request ended as {:?}", other), cj(json!(null))); continue }
            };
            let get = |n: &str| resp.get(n).map(|s| s.to_string());
            let mut problems: Vec<(String, String)> = vec![];
            // every response in scope
            if get("access-control-allow-origin").as_deref() != Some(policy.origin) {
                problems.push(("allow-origin".into(), format!("Access-Control-Allow-Origin {:?}, configured {:?}", get("access-control-allow-origin"), policy.origin)));
            }
            let acac = get("access-control-allow-credentials");
            if want_acac != (acac.as_deref() == Some("true")) || (!want_acac && acac.is_some()) {
                problems.push(("allow-credentials".into(), format!("Access-Control-Allow-Credentials {acac:?}, expected {}", if want_acac { "true" } else { "absent" })));
            }
            let exp_expose = policy.expose.map(|i| EXPOSE_LISTS[i].join(", "));
            if get("access-control-expose-headers") != exp_expose {
                problems.push(("expose-headers".into(), format!("Access-Control-Expose-Headers {:?}, configured {:?}", get("access-control-expose-headers"), exp_expose)));
            }
            let mut pclass = class.to_string();
            if let Some(m) = &acrm {
                let ok = !registered.is_empty() && advertised.iter().any(|a| a == m);
                pclass = if ok { "preflight-ok".into() } else if registered.is_empty() { "preflight-unregistered-path".into() } else { "preflight-bad-method".into() };
                if ok {
                    if !(200..300).contains(&resp.status) {
                        problems.push(("preflight-refused".into(), format!("preflight for {m} on {path} answered {} although {m} is registered there ({:?})", resp.status, registered)));
                    } else {
                        if !resp.body.is_empty() {
                            problems.push(("preflight-body".into(), "successful preflight carries a body".into()));
                        }
                        let mut got: Vec<String> = get("access-control-allow-methods").unwrap_or_default().split(',').map(|s| s.trim().to_string()).filter(|s| !s.is_empty()).collect();
                        got.sort();
                        if got != advertised {
                            problems.push(("allow-methods".into(), format!("Access-Control-Allow-Methods {:?}, registered {:?}", get("access-control-allow-methods"), advertised)));
                        }
                        let exp_h = policy.allow_headers.map(|i| ALLOW_LISTS[i].join(", ")).or(acrh.map(|s| s.to_string()));
                        if get("access-control-allow-headers") != exp_h {
                            problems.push(("allow-headers".into(), format!("Access-Control-Allow-Headers {:?}, expected {:?}", get("access-control-allow-headers"), exp_h)));
                        }
                        if get("access-control-max-age") != policy.max_age.map(|m| m.to_string()) {
                            problems.push(("max-age".into(), format!("Access-Control-Max-Age {:?}, configured {:?}", get("access-control-max-age"), policy.max_age)));
                        }
                    }
                } else if !(400..500).contains(&resp.status) {
                    problems.push(("preflight-admitted".into(), format!("preflight for {m} on {path} answered {} although only {:?} are registered there", resp.status, registered)));
                }
            }
            rep.count(&format!("class:{pclass}"));
            rep.distinct(&format!("{pbits}:{}:{pclass}", registered.join("+")));
            if problems.is_empty() {
                rep.count("responses_conforming");
                if rep.want_sample() && pclass == "preflight-ok" {
                    rep.sample(json!({"policy": format!("{policy:?}"), "request": crate::rng::show(&bytes), "status": resp.status, "allow_methods": get("access-control-allow-methods")}));
                }
            }
            for (k, what) in problems {
                rep.violation(&format!("C14/{k}"), &what, cj(json!({"status": resp.status, "headers": resp.headers})));
            }
        }
    }
}
