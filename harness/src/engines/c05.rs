//! C05 (keep-alive independence and order) and C06 (independence from segmentation) over the in-memory
//! connection, plus the shared sequence generator used by the TCP cross-check.

use crate::catalog::{self, expected_echo, normalise, PROBES};
use crate::httpref::parse_response;
use crate::memconn::{End, Seg};
use crate::report::{Args, Report};
use crate::reqref::{self, parse_request, recase, GenReq};
use crate::rng::Rng;
use crate::web::{self, Step};
use ohkami::__verif__ as hook;
use serde_json::json;

#[derive(Clone, Debug)]
pub struct SeqReq {
    pub bytes: Vec<u8>,
    pub token: String,
    pub close: bool,
    pub malformed: Option<&'static str>,
    pub shape: String,
    pub head_len: usize,
}

/// Heads stay below the 1 KiB read buffer: a larger head may be refused (C02), after which no server can find the next
/// request boundary again, so later requests of such a connection are outside what C05/C06 state.
pub fn gen_seq_request(rng: &mut Rng, k: usize, allow_malformed: bool, small: bool) -> SeqReq {
    loop {
        let r = gen_seq_request_any(rng, k, allow_malformed, small);
        if r.head_len <= 1000 {
            return r;
        }
    }
}

fn gen_seq_request_any(rng: &mut Rng, k: usize, allow_malformed: bool, small: bool) -> SeqReq {
    let token = format!("T{k}x{:08x}Z", rng.u64() as u32);
    let method = *rng.pick_weighted(&[(4, "GET"), (3, "POST"), (2, "PUT"), (1, "PATCH"), (1, "DELETE"), (1, "HEAD"), (1, "OPTIONS")]);
    let (mut target, tshape) = match rng.below(10) {
        0 => ("/echo".to_string(), "e"),
        1 => ("/".to_string(), "r"),
        2 => ("/nocontent".to_string(), "n"),
        3 => (format!("/missing/{token}"), "m"),
        4 => (format!("/echo/{token}/"), "ps"),
        5 => (format!("/echo/%41{token}%2Fx"), "pe"),
        _ => (format!("/echo/{token}"), "p"),
    };
    if rng.bool() {
        target.push_str(&format!("?k={token}q&{token}=v"));
    }
    let mut headers: Vec<(String, String)> = vec![];
    let nh = *rng.pick_weighted(&[(3, 0usize), (4, 2), (3, 5), (2, 9)]);
    let mut names: Vec<&str> = PROBES.iter().copied().filter(|n| *n != "Content-Length" && *n != "Connection").collect();
    rng.shuffle(&mut names);
    for n in names.into_iter().take(nh) {
        let (name, _) = recase(rng, n);
        let extra = if rng.chance(1, 6) && !small { "y".repeat(rng.range(50, 150)) } else { String::new() };
        headers.push((name, format!("{token}-{n}{extra}")));
    }
    let ctx = rng.chance(1, 3);
    if ctx {
        headers.push((catalog::CTX_HEADER.to_string(), format!("{token}ctx")));
    }
    // any method may announce a body with Content-Length; the reader has to consume it whatever the method
    let bclass = if (matches!(method, "POST" | "PUT" | "PATCH" | "DELETE") && rng.chance(2, 3)) || (matches!(method, "GET" | "HEAD" | "OPTIONS") && rng.chance(1, 4)) { rng.range(1, 7) } else { 0 };
    let mut body: Vec<u8> = match bclass {
        0 => vec![],
        1 => token.clone().into_bytes(),
        2 => [&[0u8][..], token.as_bytes()].concat(),
        3 => [token.as_bytes(), &[0u8, 0, 0][..], b"tail"].concat(),
        4 => { let n = if small { 40 } else { *rng.pick(&[300usize, 700, 1023, 1024, 1025, 5000]) }; let mut b = rng.bytes(n); b.extend_from_slice(token.as_bytes()); b }
        5 => vec![0u8; rng.range(1, 40)],
        _ => { let n = rng.range(1, if small { 30 } else { 900 }); let mut b = token.clone().into_bytes(); b.extend(rng.bytes(n)); b }
    };
    let bname = ["none", "token", "nul-first", "nul-inside", "large", "all-zero", "binary"][bclass.min(6)];
    let close = rng.chance(1, 12);
    if close {
        headers.push(("Connection".into(), if rng.bool() { "close".into() } else { "Close".into() }));
    } else if rng.chance(1, 8) {
        headers.push(("Connection".into(), "keep-alive".into()));
    }
    if !body.is_empty() {
        let at = rng.below(headers.len() + 1);
        headers.insert(at, (recase(rng, "Content-Length").0, body.len().to_string()));
    }
    let mut malformed = None;
    let mut g = GenReq { method, target, headers, body: std::mem::take(&mut body), features: String::new() };
    let mut bytes = g.bytes();
    if allow_malformed && rng.chance(1, 10) {
        // refused by the reader, small enough to be consumed by one read, no body left behind
        g.body.clear();
        g.headers.retain(|(k, _)| !k.eq_ignore_ascii_case("content-length"));
        let kind = *rng.pick(&["bad-version", "no-second-space", "cl-alpha-nobody", "missing-colon-space", "non-utf8-header-value"]);
        bytes = match kind {
            "cl-alpha-nobody" => { let mut q = g.clone(); q.headers.push(("Content-Length".into(), "abc".into())); q.bytes() }
            k => reqref::mutate(rng, &g, k),
        };
        if bytes.len() <= 1000 {
            malformed = Some(kind);
        } else {
            bytes = g.bytes();
        }
    }
    let head_len = bytes.windows(4).position(|w| w == b"\r\n\r\n").map(|i| i + 4).unwrap_or(bytes.len());
    SeqReq { bytes, token, close: close && malformed.is_none(), malformed, shape: format!("{method}{tshape}h{nh}{}{bname}{}", if ctx { "c" } else { "" }, malformed.unwrap_or("")), head_len }
}

/// A long-lived connection: `n` well-formed requests none of which asks to close (a client that polls, a proxy's pooled connection).
/// Anything per-connection that runs out, wraps or accumulates (request budgets, slot indices, buffers that only grow) needs this to show.
pub fn gen_long_sequence(rng: &mut Rng, n: usize, small: bool) -> Vec<SeqReq> {
    (0..n).map(|k| loop {
        let r = gen_seq_request(rng, k, false, small);
        if !r.close && r.bytes.len() < 600 { break r }
    }).collect()
}

pub fn gen_sequence(rng: &mut Rng, max_len: usize, allow_malformed: bool, small: bool) -> Vec<SeqReq> {
    let n = rng.range(2.min(max_len), max_len);
    (0..n).map(|k| gen_seq_request(rng, k, allow_malformed, small)).collect()
}

/// split a written byte stream into consecutive responses; Err if something does not parse
pub fn split_responses(written: &[u8], head_flags: &[bool]) -> Result<Vec<Vec<u8>>, String> {
    let mut out = vec![];
    let mut pos = 0;
    let mut i = 0;
    while pos < written.len() {
        let head = head_flags.get(i).copied().unwrap_or(false);
        let r = parse_response(&written[pos..], head).map_err(|e| format!("response {i}: {e}"))?;
        if r.framing == crate::httpref::Framing::UntilClose {
            out.push(written[pos..].to_vec());
            break;
        }
        out.push(written[pos..pos + r.consumed].to_vec());
        pos += r.consumed;
        i += 1;
    }
    Ok(out)
}

pub fn run(args: &Args, rep: &mut Report) {
    let router = hook::Router::new(catalog::app());
    let small = args.flag("small").is_some();
    let mode = args.flag("mode").unwrap_or("c05").to_string();
    if mode == "c06" && args.shard == 0 && args.start == 0 {
        c06_witnesses(rep, &router);
    }
    let mut case = args.shard;
    while case < args.budget {
        if case >= args.start {
            rep.begin(case);
            let mut rng = Rng::derive(args.seed, if mode == "c05" { 5 } else { 6 }, case);
            if mode == "c05" {
                c05_case(rep, case, &router, &mut rng, small);
            } else {
                c06_case(rep, case, &router, &mut rng, small);
            }
            rep.end(case);
        }
        case += args.nshards;
    }
}

/* ------------------------------ C05 ------------------------------ */

fn alone(router: &hook::Router, bytes: &[u8]) -> Step {
    let s = web::session(router, vec![Seg::Data(bytes.to_vec())], End::Eof, 1, |_| {});
    s.steps.into_iter().next().unwrap_or(Step::Closed)
}

fn step_norm(s: &Step) -> Step {
    match s {
        Step::Handled(b) => Step::Handled(normalise(b)),
        Step::Refused(b) => Step::Refused(normalise(b)),
        o => o.clone(),
    }
}

fn c05_case(rep: &mut Report, case: u64, router: &hook::Router, rng: &mut Rng, small: bool) {
    let seq = if !small && case % 256 == 9 { rep.count("long_sequences"); let n = *rng.pick(&[101usize, 128, 130, 256, 260, 300, 520]); gen_long_sequence(rng, n, small) }
        else if rng.chance(1, 6) { aligned_stale_sequence(rng) } else { gen_sequence(rng, if small { 4 } else { 12 }, true, small) };
    let script: Vec<Seg> = seq.iter().map(|r| Seg::Data(r.bytes.clone())).collect();
    let sess = web::session(router, script, End::Eof, seq.len() + 1, |_| {});
    let shape: String = seq.iter().map(|r| r.shape.clone()).collect::<Vec<_>>().join(">");
    let mut nontrivial = false;
    for w in seq.windows(2) {
        if w[0].bytes.len() > w[1].bytes.len() { nontrivial = true }
    }
    if seq.iter().any(|r| r.shape.contains("nul") || r.shape.contains('c')) { nontrivial = true }
    if nontrivial {
        rep.distinct(&shape);
    }
    rep.max("max_sequence_len", seq.len() as u64);
    let cj = |k: usize, extra: serde_json::Value| json!({"case_index": case, "k": k, "sequence": seq.iter().map(|r| crate::rng::show(&r.bytes[..r.bytes.len().min(300)])).collect::<Vec<_>>(), "detail": extra});
    let mut closed_at: Option<usize> = None;
    for (k, r) in seq.iter().enumerate() {
        rep.eval();
        if let Some(c) = closed_at {
            // nothing may be handled after the response to `Connection: close`
            if sess.steps.len() > k && !matches!(sess.steps[k], Step::Closed) {
                rep.violation("C05/served-after-close", &format!("request {k} was served although request {c} said Connection: close"), cj(k, json!(null)));
            }
            continue;
        }
        let got = match sess.steps.get(k) {
            Some(s) => s.clone(),
            None => {
                rep.violation("C05/missing-response", &format!("no outcome for request {k} of {}", seq.len()), cj(k, json!({"steps": sess.steps.iter().map(|s| s.kind()).collect::<Vec<_>>()})));
                break;
            }
        };
        if let Step::Panicked(p) = &got {
            rep.violation(&format!("C05/panic@{}", crate::report::panic_site(p)), &format!("request {k} panicked: {p}"), cj(k, json!(null)));
            break;
        }
        // differential: same request alone on a fresh connection
        let fresh = alone(router, &r.bytes);
        if step_norm(&got) != step_norm(&fresh) {
            let kind = match (&got, &fresh) {
                (Step::Handled(_), Step::Handled(_)) => "response-differs",
                (Step::Stuck, _) => "stuck",
                _ => "outcome-differs",
            };
            rep.violation(&format!("C05/{kind}"), &format!("request {k}: on the persistent connection {}, alone {}", describe(&got), describe(&fresh)), cj(k, json!({"persistent": describe(&got), "alone": describe(&fresh)})));
        }
        // absolute: what the reference + the application predict
        if let (Ok(refreq), Step::Handled(b)) = (parse_request(&r.bytes), &got) {
            if let Some(exp) = expected_echo(&refreq) {
                if matches!(refreq.method.as_str(), "GET" | "PUT" | "POST" | "PATCH" | "DELETE") && !(refreq.path.trim_end_matches('/') == "/echo" && !matches!(refreq.method.as_str(), "GET" | "POST")) {
                    match parse_response(b, false) {
                        Ok(pr) => {
                            if pr.status != 200 || pr.body != exp.as_bytes() {
                                rep.violation("C05/echo-differs-from-reference", &format!("request {k}: status {} and echo differ from what the wire bytes denote", pr.status), cj(k, json!({"expected": exp, "observed": String::from_utf8_lossy(&pr.body)})));
                            } else {
                                rep.count("echo_matches_reference");
                            }
                        }
                        Err(e) => rep.violation("C05/malformed-response", &e, cj(k, json!(null))),
                    }
                }
            }
        }
        // taint: nothing of any other request of the connection
        if let Some(b) = got.response() {
            for (j, o) in seq.iter().enumerate() {
                // on long-lived connections the tokens of the first request, of the 8 requests before and of the 2 after are looked for
                // (a leak travels through per-connection state, i.e. from an earlier request: all of them would make the check quadratic)
                if j != k && (seq.len() <= 40 || j == 0 || (j < k && j + 8 >= k) || (j > k && j <= k + 2)) {
                    rep.count("taint_tokens_checked");
                    let hx = crate::rng::hex(o.token.as_bytes());
                    let plain = o.token.as_bytes();
                    if b.windows(hx.len()).any(|w| w == hx.as_bytes()) || b.windows(plain.len()).any(|w| w == plain) {
                        rep.violation("C05/leak", &format!("response {k} contains the token of request {j}"), cj(k, json!({"token": o.token, "response": crate::rng::show(b)})));
                    }
                }
            }
        }
        if r.close && matches!(got, Step::Handled(_)) {
            closed_at = Some(k);
            rep.count("connection_close_seen");
        }
        if r.malformed.is_some() {
            rep.count("malformed_in_sequence");
        }
    }
    match closed_at {
        Some(c) => {
            if sess.steps.len() != c + 1 {
                rep.violation("C05/not-closed-after-close", &format!("session went on after the response to request {c} (Connection: close): {:?}", sess.steps.iter().map(|s| s.kind()).collect::<Vec<_>>()), cj(c, json!(null)));
            }
        }
        None => {
            // all requests answered, then the peer's EOF closes the session
            if sess.steps.len() != seq.len() + 1 || !matches!(sess.steps.last(), Some(Step::Closed)) {
                if !sess.steps.iter().any(|s| matches!(s, Step::Panicked(_))) {
                    rep.violation("C05/session-shape", &format!("{} requests, outcomes {:?}", seq.len(), sess.steps.iter().map(|s| s.kind()).collect::<Vec<_>>()), cj(0, json!(null)));
                }
            }
        }
    }
    if rep.want_sample() && seq.len() >= 3 {
        rep.sample(json!({"requests": seq.iter().map(|r| crate::rng::show(&r.bytes[..r.bytes.len().min(120)])).collect::<Vec<_>>(), "outcomes": sess.steps.iter().map(|s| s.kind()).collect::<Vec<_>>()}));
    }
}

fn describe(s: &Step) -> String {
    match s {
        Step::Handled(b) | Step::Refused(b) => format!("{} {}", s.kind(), crate::rng::show(&normalise(b)[..b.len().min(700)])),
        o => format!("{o:?}"),
    }
}

/// targeted: stale bytes of request k (after an embedded NUL / beyond a short request) aligned with the end of the head of request k+1
fn aligned_stale_sequence(rng: &mut Rng) -> Vec<SeqReq> {
    let t0 = format!("T0x{:08x}Z", rng.u64() as u32);
    let t1 = format!("T1x{:08x}Z", rng.u64() as u32);
    // request 0: a long head + body with NULs, so that the buffer keeps non-zero bytes behind zero bytes
    let pad = rng.range(10, 600);
    let body0: Vec<u8> = [t0.as_bytes(), &[0u8; 3][..], t0.as_bytes(), &vec![b'S'; rng.range(1, 300)][..]].concat();
    let r0 = format!("POST /echo/{t0} HTTP/1.1\r\nX-Trace: {}{t0}\r\nContent-Length: {}\r\n\r\n", "p".repeat(pad), body0.len());
    let b0 = [r0.as_bytes(), &body0[..]].concat();
    // request 1: short; optionally announces a body that starts where request 0 left bytes
    let with_body = rng.bool();
    let body1: Vec<u8> = if with_body { [&[0u8][..], t1.as_bytes()].concat() } else { vec![] };
    let r1 = if with_body { format!("POST /echo/{t1} HTTP/1.1\r\nContent-Length: {}\r\n\r\n", body1.len()) } else { format!("GET /echo/{t1} HTTP/1.1\r\n\r\n") };
    let b1 = [r1.as_bytes(), &body1[..]].concat();
    let t2 = format!("T2x{:08x}Z", rng.u64() as u32);
    let b2 = format!("GET /echo/{t2} HTTP/1.1\r\nAccept: {t2}\r\n\r\n").into_bytes();
    let mk = |bytes: Vec<u8>, token: String, shape: &str| {
        let head_len = bytes.windows(4).position(|w| w == b"\r\n\r\n").map(|i| i + 4).unwrap_or(bytes.len());
        SeqReq { bytes, token, close: false, malformed: None, shape: shape.to_string(), head_len }
    };
    vec![mk(b0, t0, "stale-long-nul"), mk(b1, t1, if with_body { "stale-short-nul-first" } else { "stale-short" }), mk(b2, t2, "stale-after")]
}

/* ------------------------------ C06 ------------------------------ */

const SEG_CLASSES: [&str; 9] = ["head-split", "head|body", "body-split", "body-bytewise", "first-read-head+part-of-body", "coalesced", "straddling", "every-byte-boundary-of-head", "random"];

fn c06_witnesses(rep: &mut Report, router: &hook::Router) {
    let r0 = b"GET /echo/T0x00000000Z HTTP/1.1\r\nHost: t\r\n\r\n".to_vec();
    let r1 = b"GET /echo/T1x00000000Z HTTP/1.1\r\nHost: t\r\n\r\n".to_vec();
    let mk = |b: Vec<u8>, t: &str| SeqReq { head_len: b.len(), bytes: b, token: t.into(), close: false, malformed: None, shape: "w".into() };
    let seq = vec![mk(r0.clone(), "T0x00000000Z"), mk(r1.clone(), "T1x00000000Z")];
    // head split in the middle of the request line
    c06_check(rep, u64::MAX, router, &seq, vec![Seg::Data(r0[..10].to_vec()), Seg::Data(r0[10..].to_vec()), Seg::Data(r1.clone())], "head-split");
    // two requests in one read
    c06_check(rep, u64::MAX, router, &seq, vec![Seg::Data([r0.clone(), r1.clone()].concat())], "coalesced");
}

fn c06_case(rep: &mut Report, case: u64, router: &hook::Router, rng: &mut Rng, small: bool) {
    let mut seq = gen_sequence(rng, if small { 2 } else { 4 }, false, small);
    if rng.chance(1, 3) {
        seq.truncate(1);
    }
    // Connection: close in the middle would make later requests unanswered under every delivery; keep it on the last one only
    let n = seq.len();
    for (i, r) in seq.iter_mut().enumerate() {
        if r.close && i + 1 != n {
            *r = gen_seq_request(rng, i, false, small);
            while r.close { *r = gen_seq_request(rng, i, false, small) }
        }
    }
    // the two known-bad classes (C06-F1/F2) get a small share: they are attributed wholesale, so more of them teaches nothing
    let class = if small { *rng.pick(&["head|body", "body-split", "first-read-head+part-of-body", "body-bytewise", "head-split", "coalesced"]) } else {
        *rng.pick_weighted(&[(1, "head-split"), (6, "head|body"), (6, "body-split"), (4, "body-bytewise"), (6, "first-read-head+part-of-body"), (1, "coalesced"), (1, "straddling"), (0, "every-byte-boundary-of-head"), (3, "random")])
    };
    let class = if !small && case % 997 == 0 { "every-byte-boundary-of-head" } else { class };
    if class == "every-byte-boundary-of-head" {
        // exhaustive over the head of the first request (short heads only)
        let r = &seq[0];
        if r.head_len <= 160 {
            for cut in 1..r.head_len {
                let mut script = vec![Seg::Data(r.bytes[..cut].to_vec()), Seg::Data(r.bytes[cut..].to_vec())];
                script.extend(seq[1..].iter().map(|x| Seg::Data(x.bytes.clone())));
                c06_check(rep, case, router, &seq, script, "head-split");
            }
            rep.count("heads_split_at_every_byte");
            return;
        }
    }
    let script = segment(rng, &seq, class);
    c06_check(rep, case, router, &seq, script.0, script.1);
}

/// returns (script, realised class)
fn segment(rng: &mut Rng, seq: &[SeqReq], class: &'static str) -> (Vec<Seg>, &'static str) {
    let mut script: Vec<Seg> = vec![];
    let mut realised = class;
    match class {
        "head-split" | "every-byte-boundary-of-head" => {
            let i = rng.below(seq.len());
            for (k, r) in seq.iter().enumerate() {
                if k == i {
                    // structural cut points: inside the method, inside a header name, between CR and LF, before the blank line
                    let cuts: Vec<usize> = vec![1, 3, r.bytes.iter().position(|&b| b == b'\r').unwrap_or(2) + 1, r.head_len - 2, r.head_len - 1, rng.range(1, r.head_len - 1)];
                    let cut = (*rng.pick(&cuts)).clamp(1, r.head_len - 1);
                    script.push(Seg::Data(r.bytes[..cut].to_vec()));
                    if rng.bool() { script.push(Seg::Pending) }
                    script.push(Seg::Data(r.bytes[cut..].to_vec()));
                } else {
                    script.push(Seg::Data(r.bytes.clone()));
                }
            }
            realised = "head-split";
        }
        "head|body" => {
            for r in seq {
                if r.bytes.len() > r.head_len {
                    script.push(Seg::Data(r.bytes[..r.head_len].to_vec()));
                    if rng.bool() { script.push(Seg::Pending) }
                    script.push(Seg::Data(r.bytes[r.head_len..].to_vec()));
                } else {
                    script.push(Seg::Data(r.bytes.clone()));
                }
            }
        }
        "body-split" | "body-bytewise" | "first-read-head+part-of-body" => {
            for r in seq {
                let blen = r.bytes.len() - r.head_len;
                if blen >= 2 {
                    match class {
                        "body-bytewise" if blen <= 64 => {
                            script.push(Seg::Data(r.bytes[..r.head_len].to_vec()));
                            for b in &r.bytes[r.head_len..] {
                                script.push(Seg::Data(vec![*b]));
                                if rng.chance(1, 4) { script.push(Seg::Pending) }
                            }
                        }
                        "first-read-head+part-of-body" => {
                            let cut = r.head_len + rng.range(1, blen - 1);
                            script.push(Seg::Data(r.bytes[..cut].to_vec()));
                            script.push(Seg::Data(r.bytes[cut..].to_vec()));
                        }
                        _ => {
                            script.push(Seg::Data(r.bytes[..r.head_len].to_vec()));
                            let mut pos = r.head_len;
                            while pos < r.bytes.len() {
                                let n = rng.range(1, (r.bytes.len() - pos).min(700));
                                script.push(Seg::Data(r.bytes[pos..pos + n].to_vec()));
                                pos += n;
                            }
                        }
                    }
                } else {
                    script.push(Seg::Data(r.bytes.clone()));
                }
            }
            if !seq.iter().any(|r| r.bytes.len() - r.head_len >= 2) {
                realised = "no-body-to-split";
            }
        }
        "coalesced" => {
            if seq.len() < 2 {
                script.push(Seg::Data(seq[0].bytes.clone()));
                realised = "single-request";
            } else {
                let mut i = 0;
                while i < seq.len() {
                    let n = rng.range(2, 4).min(seq.len() - i).max(1);
                    script.push(Seg::Data(seq[i..i + n].iter().flat_map(|r| r.bytes.clone()).collect()));
                    i += n;
                }
            }
        }
        "straddling" => {
            if seq.len() < 2 {
                script.push(Seg::Data(seq[0].bytes.clone()));
                realised = "single-request";
            } else {
                let all: Vec<u8> = seq.iter().flat_map(|r| r.bytes.clone()).collect();
                let cut = seq[0].bytes.len() + rng.range(1, seq[1].bytes.len() - 1);
                script.push(Seg::Data(all[..cut].to_vec()));
                script.push(Seg::Data(all[cut..].to_vec()));
            }
        }
        _ => {
            let all: Vec<u8> = seq.iter().flat_map(|r| r.bytes.clone()).collect();
            let mut pos = 0;
            while pos < all.len() {
                let n = rng.range(1, (all.len() - pos).min(1500));
                script.push(Seg::Data(all[pos..pos + n].to_vec()));
                pos += n;
            }
            realised = classify_random(seq, &script);
        }
    }
    (script, realised)
}

/// which known-bad class (if any) a random segmentation falls into
fn classify_random(seq: &[SeqReq], script: &[Seg]) -> &'static str {
    // request boundaries and head ends in stream offsets
    let mut bounds = vec![];
    let mut heads = vec![];
    let mut off = 0;
    for r in seq {
        heads.push((off, off + r.head_len));
        off += r.bytes.len();
        bounds.push(off);
    }
    let mut pos = 0;
    let (mut split, mut coalesced) = (false, false);
    for s in script {
        if let Seg::Data(d) = s {
            let (a, b) = (pos, pos + d.len());
            // a segment that covers bytes of two requests
            if bounds.iter().any(|&x| a < x && x < b) {
                coalesced = true;
            }
            // a cut inside a head
            if heads.iter().any(|&(h0, h1)| (h0 < a && a < h1) || (h0 < b && b < h1)) {
                split = true;
            }
            pos = b;
        }
    }
    // a head cut anywhere dominates (nothing about the responses is predictable then)
    if split { "head-split" } else if coalesced { "coalesced" } else { "random-benign" }
}

fn c06_check(rep: &mut Report, case: u64, router: &hook::Router, seq: &[SeqReq], script: Vec<Seg>, class: &'static str) {
    rep.eval();
    rep.count(&format!("class:{class}"));
    rep.distinct(&format!("{}|{class}", seq.iter().map(|r| r.shape.clone()).collect::<Vec<_>>().join(">")));
    // canonical delivery: one segment per request
    let canon = web::session(router, seq.iter().map(|r| Seg::Data(r.bytes.clone())).collect(), End::Eof, seq.len() + 2, |_| {});
    let got = web::session(router, script.clone(), End::Eof, seq.len() * 3 + 6, |_| {});
    let heads: Vec<bool> = seq.iter().map(|r| r.bytes.starts_with(b"HEAD ")).collect();
    let canon_resps = split_responses(&canon.written, &heads).map(|v| v.iter().map(|r| normalise(r)).collect::<Vec<_>>());
    let got_resps = split_responses(&got.written, &heads).map(|v| v.iter().map(|r| normalise(r)).collect::<Vec<_>>());
    let panicked = got.steps.iter().find_map(|s| if let Step::Panicked(p) = s { Some(p.clone()) } else { None });
    let stuck = got.steps.iter().any(|s| matches!(s, Step::Stuck));
    let same = canon_resps.is_ok() && got_resps == canon_resps && panicked.is_none() && !stuck;
    // taint: a token in a response other than its own request's
    let mut leak = None;
    if let Ok(rs) = &got_resps {
        for (k, b) in rs.iter().enumerate() {
            for (j, o) in seq.iter().enumerate() {
                // on long-lived connections the tokens of the first request, of the 8 requests before and of the 2 after are looked for
                // (a leak travels through per-connection state, i.e. from an earlier request: all of them would make the check quadratic)
                if j != k && (seq.len() <= 40 || j == 0 || (j < k && j + 8 >= k) || (j > k && j <= k + 2)) {
                    rep.count("taint_tokens_checked");
                    let hx = crate::rng::hex(o.token.as_bytes());
                    if b.windows(hx.len()).any(|w| w == hx.as_bytes()) {
                        leak = Some((k, j));
                    }
                }
            }
        }
    }
    if same && leak.is_none() {
        rep.count(&format!("same-as-canonical:{class}"));
        if rep.want_sample() && class != "head|body" {
            rep.sample(json!({"class": class, "segments": script.iter().map(|s| match s { Seg::Data(d) => format!("{} bytes", d.len()), Seg::Pending => "pending".into() }).collect::<Vec<_>>(), "responses": got_resps.as_ref().map(|v| v.len()).unwrap_or(0)}));
        }
        return;
    }
    let what = if let Some(p) = &panicked {
        format!("panic: {p}")
    } else if stuck {
        "reader waits although every byte was delivered".to_string()
    } else if let Some((k, j)) = leak {
        format!("response {k} carries bytes of request {j}")
    } else {
        format!("responses differ from the canonical delivery: {} vs {} responses", got_resps.as_ref().map(|v| v.len() as i64).unwrap_or(-1), canon_resps.as_ref().map(|v| v.len() as i64).unwrap_or(-1))
    };
    // attribution: the two known-bad input classes; everything else is new. The defect model of C06-F2 is "bytes of the NEXT request
    // that arrive with the end of the previous one are lost": the response to the first request of the connection is not affected by it,
    // so a differing first response under coalescing is not explained by the finding.
    // (compared on the raw stream: with responses missing, HEAD responses can no longer be delimited reliably)
    let first_ok = match canon_resps.as_ref().ok().and_then(|c| c.first()) {
        Some(c0) => { let g = normalise(&got.written); g.len() >= c0.len() && g[..c0.len()] == c0[..] }
        None => false,
    };
    let sig = match class {
        "head-split" => "C06/head-split".to_string(),
        "coalesced" | "straddling" if !first_ok && panicked.is_none() => format!("C06/unexplained:{class}:first-response-differs"),
        "coalesced" | "straddling" => "C06/coalesced".to_string(),
        other => format!("C06/unexplained:{other}:{}", if panicked.is_some() { "panic" } else if stuck { "stuck" } else if leak.is_some() { "leak" } else { "differs" }),
    };
    rep.violation(&sig, &format!("segmentation class {class}: {what}"), json!({"case_index": case, "class": class,
        "segments": script.iter().map(|s| match s { Seg::Data(d) => crate::rng::show(&d[..d.len().min(200)]), Seg::Pending => "<pending>".into() }).collect::<Vec<_>>(),
        "outcomes": got.steps.iter().map(|s| s.kind()).collect::<Vec<_>>(), "canonical_outcomes": canon.steps.iter().map(|s| s.kind()).collect::<Vec<_>>(), "what": what}));
}
