//! C13 – BasicAuth fang admits exactly the configured credentials.

use crate::httpref::{b64_encode, parse_response};
use crate::report::{Args, Report};
use crate::rng::Rng;
use crate::trace::{self, Ev};
use crate::web::{self, Step};
use ohkami::fang::BasicAuth;
use ohkami::__verif__ as hook;
use ohkami::{Ohkami, Route};
use serde_json::json;

fn handler_app_single(p: &(String, String)) -> Ohkami {
    Ohkami::new((BasicAuth { username: p.0.clone(), password: p.1.clone() }, "/p".GET(|| {
        trace::push(Ev::Handler(1, vec![]));
        async { "secret" }
    })))
}
fn handler_app_array(ps: &[(String, String)]) -> Ohkami {
    let b = |i: usize| BasicAuth { username: ps[i].0.clone(), password: ps[i].1.clone() };
    let h = || {
        trace::push(Ev::Handler(1, vec![]));
        async { "secret" }
    };
    match ps.len() {
        1 => Ohkami::new(([b(0)], "/p".GET(h))),
        2 => Ohkami::new(([b(0), b(1)], "/p".GET(h))),
        3 => Ohkami::new(([b(0), b(1), b(2)], "/p".GET(h))),
        _ => Ohkami::new(([b(0), b(1), b(2), b(3)], "/p".GET(h))),
    }
}

fn gen_part(rng: &mut Rng, colon_ok: bool) -> String {
    let s = match rng.below(10) {
        // long credentials (API tokens as passwords): lengths around 2^7 and 2^8 so that `user:password` crosses 255 / 256 bytes
        9 => { let n = *rng.pick(&[120usize, 126, 127, 128, 200, 250, 253, 254, 255, 256, 300]); rng.string_over(b"abcdefghijklmnopqrstuvwxyzABCDEFGHIJKLMNOPQRSTUVWXYZ0123456789-_.", n, n) }
        // names and passwords people really have: characters of the Latin-1 range (one byte in ISO-8859-1, two in UTF-8), other scripts, symbols
        8 => rng.pick(&["rené", "pässword", "señor", "ñandú", "café", "£5", "Ærø", "naïve", "ÿ", "µ", "日本語", "пароль", "é"]).to_string(),
        0 => String::new(),
        1 => rng.unicode_string(8),
        2 => "pass:word".to_string(),
        3 => ":".to_string(),
        4 => "a".to_string(),
        5 => rng.string_over(b"abcXYZ019 !#$%&*+-", 1, 20),
        6 => "master of hello".to_string(),
        _ => rng.string_over(b"abc", 1, 4),
    };
    // header values cannot carry CR/LF/NUL; the credentials travel base64-encoded, so anything goes for them
    if colon_ok { s } else { s.replace(':', "_") }
}

/// (class, header value bytes or None for "no header")
fn gen_headers(rng: &mut Rng, pairs: &[(String, String)]) -> Vec<(&'static str, Option<Vec<u8>>)> {
    let mut v: Vec<(&'static str, Option<Vec<u8>>)> = vec![("missing", None)];
    let enc = |u: &str, p: &str| b64_encode(format!("{u}:{p}").as_bytes(), false, true);
    for (u, p) in pairs {
        let e = enc(u, p);
        v.push(("correct", Some(format!("Basic {e}").into_bytes())));
        v.push(("scheme-lowercase", Some(format!("basic {e}").into_bytes())));
        v.push(("scheme-upper", Some(format!("BASIC {e}").into_bytes())));
        v.push(("two-spaces", Some(format!("Basic  {e}").into_bytes())));
        v.push(("no-space", Some(format!("Basic{e}").into_bytes())));
        v.push(("no-scheme", Some(e.clone().into_bytes())));
        v.push(("scheme-twice", Some(format!("Basic Basic {e}").into_bytes())));
        v.push(("scheme-thrice", Some(format!("Basic Basic Basic {e}").into_bytes())));
        v.push(("trailing-space", Some(format!("Basic {e} ").into_bytes())));
        v.push(("other-scheme", Some(format!("Bearer {e}").into_bytes())));
        v.push(("suffix-junk", Some(format!("Basic {e}AAAA").into_bytes())));
        v.push(("unpadded", Some(format!("Basic {}", e.trim_end_matches('=')).into_bytes())));
        v.push(("url-alphabet", Some(format!("Basic {}", e.replace('+', "-").replace('/', "_")).into_bytes())));
        // password prefix / extension / case
        v.push(("password-extended", Some(format!("Basic {}", enc(u, &format!("{p}x"))).into_bytes())));
        if !p.is_empty() {
            let mut q = p.clone();
            q.pop();
            v.push(("password-truncated", Some(format!("Basic {}", enc(u, &q)).into_bytes())));
        }
        v.push(("user-extended", Some(format!("Basic {}", enc(&format!("{u}x"), p)).into_bytes())));
        v.push(("swapped", Some(format!("Basic {}", enc(p, u)).into_bytes())));
        v.push(("no-colon", Some(format!("Basic {}", b64_encode(format!("{u}{p}").as_bytes(), false, true)).into_bytes())));
        v.push(("user-only", Some(format!("Basic {}", b64_encode(u.as_bytes(), false, true)).into_bytes())));
        v.push(("extra-colon-part", Some(format!("Basic {}", enc(u, &format!("{p}:junk"))).into_bytes())));
        // non-canonical last character (same bytes after lenient decoding)
        if let Some(c) = e.trim_end_matches('=').chars().last() {
            let alphabet = "ABCDEFGHIJKLMNOPQRSTUVWXYZabcdefghijklmnopqrstuvwxyz0123456789+/";
            let pads = e.len() - e.trim_end_matches('=').len();
            if pads > 0 {
                let i = alphabet.find(c).unwrap();
                let alt = alphabet.as_bytes()[(i | 1) % 64] as char;
                if alt != c {
                    let mut s = e.trim_end_matches('=').to_string();
                    s.pop();
                    s.push(alt);
                    s.push_str(&"=".repeat(pads));
                    v.push(("non-canonical-bits", Some(format!("Basic {s}").into_bytes())));
                }
            }
        }
        // single character substitutions of the encoded credential
        let eb = e.as_bytes();
        for _ in 0..3 {
            if eb.is_empty() {
                break;
            }
            let i = rng.below(eb.len());
            let mut m = eb.to_vec();
            m[i] = *rng.pick(b"ABCDEFGHIJKLMNOPQRSTUVWXYZabcdefghijklmnopqrstuvwxyz0123456789+/=");
            if m != eb {
                v.push(("substitution", Some([b"Basic ".to_vec(), m].concat())));
            }
        }
    }
    // mix user of one pair with password of another
    if pairs.len() > 1 {
        for i in 0..pairs.len() {
            let j = (i + 1) % pairs.len();
            v.push(("mixed-pairs", Some(format!("Basic {}", enc(&pairs[i].0, &pairs[j].1)).into_bytes())));
        }
    }
    // a configured pair in another character encoding is another byte string, hence not the configured credential (the base64 payload is
    // compared as UTF-8 text; RFC 7617 knows no fallback): ISO-8859-1, UTF-16, UTF-8 behind a byte-order mark
    for (u, p) in pairs {
        let text = format!("{u}:{p}");
        if !text.is_ascii() {
            if text.chars().all(|c| (c as u32) < 256) {
                let latin1: Vec<u8> = text.chars().map(|c| c as u32 as u8).collect();
                v.push(("configured-pair-in-latin1", Some(format!("Basic {}", b64_encode(&latin1, false, true)).into_bytes())));
            }
            let utf16le: Vec<u8> = text.encode_utf16().flat_map(|w| w.to_le_bytes()).collect();
            v.push(("configured-pair-in-utf16", Some(format!("Basic {}", b64_encode(&utf16le, false, true)).into_bytes())));
        }
        let bom = [b"\xef\xbb\xbf".to_vec(), text.clone().into_bytes()].concat();
        v.push(("configured-pair-behind-bom", Some(format!("Basic {}", b64_encode(&bom, false, true)).into_bytes())));
    }
    // payloads that are not UTF-8 after decoding
    for raw in [vec![0xffu8], b"user:\xff".to_vec(), b"\xc3:x".to_vec(), b"ab:cd\xe3\x81".to_vec(), vec![0x80, b':', 0x80]] {
        v.push(("non-utf8-payload", Some(format!("Basic {}", b64_encode(&raw, false, true)).into_bytes())));
    }
    v.push(("invalid-base64", Some(b"Basic !!!!".to_vec())));
    v.push(("invalid-base64", Some(b"Basic =".to_vec())));
    v.push(("empty-credential", Some(b"Basic ".to_vec())));
    v.push(("scheme-only", Some(b"Basic".to_vec())));
    v.push(("empty-value", Some(b"".to_vec())));
    v.push(("random", Some(rng.string_over(b"abcdefghijklmnopqrstuvwxyzABCDEFGHIJKLMNOPQRSTUVWXYZ0123456789+/= :", 0, 40).into_bytes())));
    v.push(("raw-high-bytes", Some(b"Basic \xff\xfe".to_vec())));
    v
}

pub fn run(args: &Args, rep: &mut Report) {
    let small = args.flag("small").is_some();
    let mut case = args.shard;
    while case < args.budget {
        if case >= args.start {
            rep.begin(case);
            let mut rng = Rng::derive(args.seed, 13, case);
            let n = *rng.pick_weighted(&[(4, 1usize), (3, 2), (2, 3), (1, 4)]);
            let mut pairs: Vec<(String, String)> = vec![];
            while pairs.len() < n {
                let p = match (pairs.last().cloned(), rng.below(4)) {
                    // pairs that are prefixes of each other / share a user
                    (Some((u, p)), 0) => (format!("{u}x"), p),
                    (Some((u, p)), 1) => (u, format!("{p}{}", rng.pick(&["1", ":", "x"]))),
                    _ => (gen_part(&mut rng, false), gen_part(&mut rng, true)),
                };
                if !pairs.contains(&p) {
                    pairs.push(p);
                }
            }
            // another application in the same process whose fang lists one pair that is not among `pairs`
            let foreign = hook::Router::new(handler_app_single(&("someone else".to_string(), "another:password".to_string())));
            let mut forms: Vec<(&'static str, hook::Router)> = vec![("array", hook::Router::new(handler_app_array(&pairs)))];
            if n == 1 {
                forms.push(("single", hook::Router::new(handler_app_single(&pairs[0]))));
            }
            let mut headers = gen_headers(&mut rng, &pairs);
            if small {
                headers = headers.into_iter().step_by(3).collect();
            }
            let shape = format!("{}:{}", n, pairs.iter().map(|(u, p)| format!("{}{}{}", u.len().min(3), if p.contains(':') { 'c' } else { 'n' }, p.len().min(3))).collect::<Vec<_>>().join(","));
            for (form, router) in &forms {
                for (class, hv) in &headers {
                    rep.eval();
                    rep.count(&format!("class:{class}"));
                    rep.distinct(&format!("{form}:{shape}:{class}"));
                    let allowed = match hv {
                        Some(h) => pairs.iter().any(|(u, p)| *h == format!("Basic {}", b64_encode(format!("{u}:{p}").as_bytes(), false, true)).into_bytes()),
                        None => false,
                    };
                    let mut bytes = b"GET /p HTTP/1.1\r\nHost: t\r\n".to_vec();
                    if let Some(h) = hv {
                        bytes.extend_from_slice(b"Authorization: ");
                        bytes.extend_from_slice(h);
                        bytes.extend_from_slice(b"\r\n");
                    }
                    bytes.extend_from_slice(b"\r\n");
                    trace::clear();
                    let step = web::oneshot(router, &bytes);
                    let ran = trace::take().iter().any(|e| matches!(e, Ev::Handler(..)));
                    let cj = || json!({"case_index": case, "form": form, "pairs": pairs, "class": class, "authorization": hv.as_ref().map(|h| crate::rng::show(h)), "allowed": allowed});
                    let (status, challenge) = match &step {
                        Step::Handled(b) | Step::Refused(b) => match parse_response(b, false) {
                            Ok(r) => (r.status, r.get("www-authenticate").map(|s| s.to_string())),
                            Err(e) => {
                                rep.violation("C13/malformed-response", &e, cj());
                                continue;
                            }
                        },
                        Step::Panicked(p) => {
                            rep.violation(&format!("C13/panic@{}", crate::report::panic_site(p)), &format!("panic for class {class}: {p}"), cj());
                            continue;
                        }
                        other => {
                            rep.violation(&format!("C13/{}", other.kind()), &format!("request ended as {}", other.kind()), cj());
                            continue;
                        }
                    };
                    if allowed {
                        rep.count("admitted");
                        if !ran || status != 200 {
                            rep.violation("C13/false-rejection", &format!("configured credential refused (class {class}, status {status})"), cj());
                        }
                        // a credential is valid for the fang that lists it, not for the process: the very same header, right after it was
                        // admitted here, sent to another application whose fang lists other pairs must be refused there
                        rep.eval();
                        rep.count("admitted_credential_replayed_to_a_fang_with_other_pairs");
                        trace::clear();
                        let _ = web::oneshot(&foreign, &bytes);
                        if trace::take().iter().any(|e| matches!(e, Ev::Handler(..))) {
                            rep.violation("C13/false-admission:credential-of-another-fang", &format!("a credential configured for one BasicAuth fang was admitted by another one that does not list it (class {class})"), cj());
                        }
                    } else {
                        rep.count("refused");
                        if ran {
                            rep.violation(&format!("C13/false-admission:{class}"), &format!("handler ran for a non-configured credential (class {class})"), cj());
                        } else if *class == "raw-high-bytes" && (400..500).contains(&status) {
                            // bytes that are not UTF-8 make the request itself malformed (C02): the reader may refuse it with 400 before the fang sees it
                            rep.count("malformed-request-refused-by-reader");
                        } else if status != 401 {
                            rep.violation(&format!("C13/refusal-status:{class}"), &format!("refused with status {status}, not 401 (class {class})"), cj());
                        } else if !challenge.as_deref().map(|c| c.starts_with("Basic")).unwrap_or(false) {
                            rep.violation("C13/no-challenge", &format!("401 without a Basic challenge: {challenge:?}"), cj());
                        }
                    }
                    if rep.want_sample() && *class == "mixed-pairs" {
                        rep.sample(json!({"pairs": pairs, "authorization": hv.as_ref().map(|h| crate::rng::show(h)), "class": class, "handler_ran": ran, "status": status}));
                    }
                }
            }
            rep.end(case);
        }
        case += args.nshards;
    }
}
