//! C20 – date and number formatters against independent references, by enumeration.

use crate::report::{catch, Args, Report};
use crate::rng::Rng;
use serde_json::json;

/// Hinnant's civil_from_days (from the paper "chrono-compatible low-level date algorithms")
fn civil_from_days(z: i64) -> (i64, u32, u32) {
    let z = z + 719_468;
    let era = if z >= 0 { z } else { z - 146_096 } / 146_097;
    let doe = (z - era * 146_097) as u64; // [0, 146096]
    let yoe = (doe - doe / 1460 + doe / 36_524 - doe / 146_096) / 365; // [0, 399]
    let y = yoe as i64 + era * 400;
    let doy = doe - (365 * yoe + yoe / 4 - yoe / 100); // [0, 365]
    let mp = (5 * doy + 2) / 153; // [0, 11]
    let d = (doy - (153 * mp + 2) / 5 + 1) as u32; // [1, 31]
    let m = if mp < 10 { mp + 3 } else { mp - 9 } as u32; // [1, 12]
    (if m <= 2 { y + 1 } else { y }, m, d)
}

pub fn reference_imf(ts: u64) -> String {
    const WD: [&str; 7] = ["Thu", "Fri", "Sat", "Sun", "Mon", "Tue", "Wed"]; // day 0 = Thursday
    const MON: [&str; 12] = ["Jan", "Feb", "Mar", "Apr", "May", "Jun", "Jul", "Aug", "Sep", "Oct", "Nov", "Dec"];
    let days = (ts / 86_400) as i64;
    let sod = ts % 86_400;
    let (y, m, d) = civil_from_days(days);
    format!(
        "{}, {:02} {} {:04} {:02}:{:02}:{:02} GMT",
        WD[(days % 7) as usize],
        d,
        MON[(m - 1) as usize],
        y,
        sod / 3600,
        (sod / 60) % 60,
        sod % 60
    )
}

pub const LAST_DAY: u64 = 2_932_896; // 9999-12-31
pub const LAST_TS: u64 = 253_402_300_799;

fn check_ts(rep: &mut Report, ts: u64, class: &str) {
    rep.eval();
    let exp = reference_imf(ts);
    match catch(|| ohkami_lib::imf_fixdate(ts)) {
        Ok(got) => {
            if got != exp {
                rep.violation(&format!("C20/date-mismatch"), &format!("imf_fixdate({ts}) = {got:?}, reference {exp:?}"), json!({"fn": "imf_fixdate", "ts": ts, "class": class, "expected": exp, "observed": got}));
            }
        }
        Err(p) => rep.violation("C20/date-panic", &format!("imf_fixdate({ts}) panicked: {p}"), json!({"fn": "imf_fixdate", "ts": ts, "class": class, "expected": exp, "observed": format!("panic: {p}")})),
    }
}

fn check_num(rep: &mut Report, n: usize, class: &str) {
    rep.eval();
    let exp_dec = n.to_string();
    let exp_hex = format!("{:016x}", n);
    match catch(|| (ohkami_lib::num::itoa(n), ohkami_lib::num::hexized(n), ohkami_lib::num::hexized_bytes(n))) {
        Ok((dec, hex, hexb)) => {
            if dec != exp_dec {
                rep.violation("C20/itoa-mismatch", &format!("itoa({n}) = {dec:?}"), json!({"fn": "itoa", "n": n.to_string(), "class": class, "expected": exp_dec, "observed": dec}));
            }
            if hex != exp_hex || &hexb[..] != exp_hex.as_bytes() {
                rep.violation("C20/hex-mismatch", &format!("hexized({n}) = {hex:?}"), json!({"fn": "hexized", "n": n.to_string(), "class": class, "expected": exp_hex, "observed": hex}));
            }
        }
        Err(p) => rep.violation("C20/num-panic", &format!("itoa/hexized({n}) panicked: {p}"), json!({"fn": "itoa/hexized", "n": n.to_string(), "class": class, "observed": format!("panic: {p}")})),
    }
}

fn days_from_civil(y: i64, m: i64, d: i64) -> u64 {
    let y = if m <= 2 { y - 1 } else { y };
    let era = if y >= 0 { y } else { y - 399 } / 400;
    let yoe = y - era * 400;
    let doy = (153 * (if m > 2 { m - 3 } else { m + 9 }) + 2) / 5 + d - 1;
    let doe = yoe * 365 + yoe / 4 - yoe / 100 + doy;
    (era * 146_097 + doe - 719_468) as u64
}

fn special_days() -> Vec<u64> {
    // leap days, century non-leap years, 400-year leap years, year ends/starts
    let mut v = vec![0u64, 1, LAST_DAY - 1, LAST_DAY];
    for (y, m, d) in [
        (1972, 2, 28), (1972, 2, 29), (1972, 3, 1), (1999, 12, 31), (2000, 1, 1), (2000, 2, 29), (2000, 3, 1), (2000, 12, 31),
        (2038, 1, 19), (2100, 2, 28), (2100, 3, 1), (2100, 12, 31), (2101, 1, 1), (2400, 2, 29), (2400, 12, 31), (4000, 2, 29),
        (9999, 1, 1), (9996, 2, 29), (1970, 12, 31), (1971, 1, 1),
    ] {
        v.push(days_from_civil(y, m, d));
    }
    v.sort();
    v.dedup();
    v
}

pub fn run(args: &Args, rep: &mut Report) {
    let mode = args.flag("mode").unwrap_or("all").to_string();
    let smallk: u64 = args.flag("small").map(|v| v.parse().unwrap_or(1)).unwrap_or(0); // miri-sized: stride factor
    let small = smallk > 0;
    let (sh, n) = (args.shard, args.nshards);
    let mut rng = Rng::derive(args.seed, 20, sh);
    let mut triples = std::collections::HashSet::new();

    if mode == "all" || mode == "days" {
        // every day number at one second of the day (seed-dependent second)
        let sod = Rng::derive(args.seed, 2000, 0).below(86_400) as u64;
        let step = if small { 997 * smallk } else { 1 };
        let mut day = sh * step;
        while day <= LAST_DAY {
            check_ts(rep, day * 86_400 + sod, "every-day");
            let (y, m, _) = civil_from_days(day as i64);
            triples.insert((y.rem_euclid(400), m, day % 7));
            day += n * step;
        }
        if !small {
            rep.count_n("days_enumerated_in_shard", (LAST_DAY + 1 + n - 1 - sh) / n);
        }
        // day boundaries: first and last second of each special day
        for d in special_days() {
            check_ts(rep, d * 86_400, "day-first-second");
            check_ts(rep, d * 86_400 + 86_399, "day-last-second");
        }
    }
    if mode == "all" || mode == "secs" {
        // every second of day on the special days (sharded by day index)
        let days = special_days();
        for (i, d) in days.iter().enumerate() {
            if i as u64 % n != sh {
                continue;
            }
            let step = if small { 1201 * smallk } else { 1 };
            let mut s = 0;
            while s < 86_400 {
                check_ts(rep, d * 86_400 + s, "every-second");
                s += step;
            }
            rep.count("days_with_every_second");
        }
    }
    if mode == "all" || mode == "random" {
        let k = if small { 300 / smallk } else { args.budget.max(1000) };
        for _ in 0..k {
            let ts = rng.u64() % (LAST_TS + 1);
            check_ts(rep, ts, "random");
            let (y, m, _) = civil_from_days((ts / 86_400) as i64);
            triples.insert((y.rem_euclid(400), m, (ts / 86_400) % 7));
        }
        if sh == 0 {
            check_ts(rep, 0, "bound");
            check_ts(rep, LAST_TS, "bound");
        }
    }
    if mode == "all" || mode == "nums" {
        let lim: usize = if small { (3000 / smallk) as usize } else { 1_000_000 };
        let mut x = sh as usize;
        while x < lim {
            check_num(rep, x, "below-1e6");
            x += n as usize;
        }
        if sh == 0 {
            let mut p: usize = 1;
            for _ in 0..20 {
                for d in [p.wrapping_sub(1), p, p.wrapping_add(1)] {
                    check_num(rep, d, "pow10");
                }
                p = p.wrapping_mul(10);
            }
            let mut p: usize = 1;
            for _ in 0..16 {
                for d in [p.wrapping_sub(1), p, p.wrapping_add(1)] {
                    check_num(rep, d, "pow16");
                }
                p = p.wrapping_mul(16);
            }
            check_num(rep, usize::MAX, "max");
            check_num(rep, usize::MAX - 1, "max");
        }
        let k = if small { 300 / smallk } else { args.budget.max(1000) };
        for _ in 0..k {
            let bits = rng.below(64) as u32 + 1;
            let v = (rng.u64() >> (64 - bits)) as usize;
            check_num(rep, v, "random");
        }
    }
    for t in &triples {
        rep.distinct(&format!("{:?}", t));
    }
    rep.sample(json!({"ts": 951_782_400u64, "expected": reference_imf(951_782_400), "observed": ohkami_lib::imf_fixdate(951_782_400)}));
    rep.sample(json!({"n": 18_446_744_073_709_551_615u64.to_string(), "itoa": ohkami_lib::num::itoa(usize::MAX), "hexized": ohkami_lib::num::hexized(usize::MAX)}));
}
