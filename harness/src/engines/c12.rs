//! C12 – JWT fang. The worker generates configurations and tokens, drives the real fang and records
//! every case (configuration, Authorization value, clock readings, what the handler saw) in a dump
//! file; the deciding judge is /verif/oracle/jwt_judge.py (Python hmac/hashlib/base64/json). The
//! worker's own judge (sha2/hmac crates) is recorded with every case so that the two can be compared.

use crate::httpref::{b64_decode, b64_encode, parse_response};
use crate::report::{Args, Report};
use crate::rng::Rng;
use crate::web::{self, Step};
use hmac::{Hmac, Mac};
use ohkami::fang::{Context, JWT};
use ohkami::__verif__ as hook;
use ohkami::{Ohkami, Route};
use serde_json::{json, Value};
use sha2::{Sha256, Sha384, Sha512};
use std::cell::RefCell;
use std::io::Write;

thread_local! {
    static SEEN: RefCell<Vec<String>> = RefCell::new(vec![]);
}

fn hmac(alg: usize, secret: &[u8], msg: &[u8]) -> Vec<u8> {
    match alg {
        0 => { let mut m = Hmac::<Sha256>::new_from_slice(secret).unwrap(); m.update(msg); m.finalize().into_bytes().to_vec() }
        1 => { let mut m = Hmac::<Sha384>::new_from_slice(secret).unwrap(); m.update(msg); m.finalize().into_bytes().to_vec() }
        _ => { let mut m = Hmac::<Sha512>::new_from_slice(secret).unwrap(); m.update(msg); m.finalize().into_bytes().to_vec() }
    }
}
const ALGS: [&str; 3] = ["HS256", "HS384", "HS512"];
fn b64u(b: &[u8]) -> String {
    b64_encode(b, true, false)
}
fn sign(alg: usize, secret: &str, header: &str, payload: &str) -> String {
    let hp = format!("{}.{}", b64u(header.as_bytes()), b64u(payload.as_bytes()));
    let sig = b64u(&hmac(alg, secret.as_bytes(), hp.as_bytes()));
    format!("{hp}.{sig}")
}

fn app(alg: usize, secret: &str) -> hook::Router {
    let secret = secret.to_string();
    let jwt: JWT<Value> = match alg {
        0 => JWT::new_256(secret),
        1 => JWT::new_384(secret),
        _ => JWT::new_512(secret),
    };
    let h = |Context(p): Context<'_, Value>| {
        SEEN.with(|s| s.borrow_mut().push(serde_json::to_string(p).unwrap()));
        async { "in" }
    };
    hook::Router::new(Ohkami::new((jwt, "/p".GET(h).POST(h))))
}

fn now() -> u64 {
    std::time::SystemTime::now().duration_since(std::time::UNIX_EPOCH).unwrap().as_secs()
}

fn gen_secret(rng: &mut Rng) -> String {
    match rng.below(6) {
        0 => String::new(),
        1 => "k".into(),
        2 => rng.string_over(b"abcdefghijklmnopqrstuvwxyz0123456789", 64, 64),
        3 => rng.string_over(b"ABCDEFxyz!#$%&/()=?", 200, 200),
        4 => rng.unicode_string(20),
        _ => rng.string_over(b"secret-0123456789", 8, 32),
    }
}

/// payload JSON text and whether its time claims admit now (a claim that is present but not a JSON number admits nothing)
fn gen_payload(rng: &mut Rng, t: u64) -> (String, Option<bool>) {
    let mut m = serde_json::Map::new();
    m.insert("sub".into(), json!(rng.unicode_string(8)));
    if rng.bool() {
        m.insert("roles".into(), json!(["a", {"n": rng.below(100), "deep": [1, 2.5, null, true]}]));
    }
    let mut admits = Some(true);
    let offs: [i64; 6] = [-1000, -5 - 5, -60, 60, 1000, 100_000];
    for claim in ["exp", "nbf", "iat"] {
        if rng.chance(1, 2) {
            continue;
        }
        let off = *rng.pick(&offs);
        let at = t as i64 + off;
        let past = off < 0;
        let mut edge: Option<bool> = None; // Some(in_past) for values that do not depend on the clock
        let v: Value = match rng.below(10) {
            // numeric edges: the epoch itself (a zero-initialised claims struct), +-1, signed zero, the ends of the integer and float ranges
            8 | 9 => {
                let (v, in_past) = match rng.below(12) {
                    0 => (json!(0), true), 1 => (json!(0.0), true), 2 => (json!(-0.0), true), 3 => (json!(1), true), 4 => (json!(-1), true), 5 => (json!(1e-9), true),
                    6 => (json!(i64::MIN), true), 7 => (json!(-1e308), true), 8 => (json!(i64::MAX), false), 9 => (json!(u64::MAX), false), 10 => (json!(1e308), false), _ => (json!(4294967296u64), false),
                };
                edge = Some(in_past);
                v
            }
            0 | 1 | 2 | 3 => json!(at),
            4 => json!(at as f64 + 0.5),
            5 => json!(-(at.abs())), // a negative NumericDate: long ago
            // not a number: such a claim cannot admit any time (RFC 7519: these claims MUST be NumericDate values) - whatever it "looks like"
            6 => { let far = t as i64 + 100_000; match rng.below(6) { 0 => json!(at.to_string()), 1 => Value::Null, 2 => json!(true), 3 => json!([far]), 4 => json!({"t": far}), _ => json!(far.to_string()) } }
            _ => json!(at as f64),
        };
        let numeric = v.as_f64();
        match numeric {
            None => admits = Some(false),
            Some(x) => {
                let in_past = match edge { Some(e) => e, None => if x < 0.0 { true } else { past } };
                let ok = match claim {
                    "exp" => !in_past,
                    _ => in_past, // nbf / iat must not be in the future
                };
                if !ok {
                    admits = Some(false);
                }
            }
        }
        m.insert(claim.into(), v);
    }
    // a definite refusal wins over "silent"
    (serde_json::to_string(&Value::Object(m)).unwrap(), admits)
}

#[derive(Clone, Debug)]
struct Case {
    kind: &'static str,
    method: &'static str,
    /// Authorization header value; None = header absent
    auth: Option<String>,
    /// the worker's own expectation: "accept" | "reject" | "either"
    expect: &'static str,
    /// payload JSON the handler must see when accepted
    payload: Option<String>,
}

const B64U_ALPHABET: &[u8] = b"ABCDEFGHIJKLMNOPQRSTUVWXYZabcdefghijklmnopqrstuvwxyz0123456789-_";

fn gen_cases(rng: &mut Rng, alg: usize, secret: &str, t: u64, exhaustive_mutations: bool) -> Vec<Case> {
    let mut out = vec![];
    let std_header = format!(r#"{{"typ":"JWT","alg":"{}"}}"#, ALGS[alg]);
    let bearer = |t: &str| Some(format!("Bearer {t}"));
    let verdict = |admits: Option<bool>| match admits {
        Some(true) => "accept",
        Some(false) => "reject",
        None => "either",
    };
    // 1. issued by the same configuration (through JWT::issue)
    for _ in 0..4 {
        let (p, admits) = gen_payload(rng, t);
        let v: Value = serde_json::from_str(&p).unwrap();
        let jwt: JWT<Value> = match alg { 0 => JWT::new_256(secret.to_string()), 1 => JWT::new_384(secret.to_string()), _ => JWT::new_512(secret.to_string()) };
        let tok: String = jwt.issue(v.clone()).into();
        // what was signed is the payload part of the token
        let signed = tok.split('.').nth(1).and_then(|p| b64_decode(p.as_bytes(), true, false)).map(|b| String::from_utf8_lossy(&b).to_string());
        out.push(Case { kind: "issued", method: *rng.pick(&["GET", "POST"]), auth: bearer(&tok), expect: verdict(admits), payload: signed.clone() });
        if admits == Some(true) {
            out.push(Case { kind: "issued-options", method: "OPTIONS", auth: bearer(&tok), expect: "reject", payload: None });
            out.push(Case { kind: "scheme-lowercase", method: "GET", auth: Some(format!("bearer {tok}")), expect: "either", payload: signed.clone() });
            out.push(Case { kind: "scheme-basic", method: "GET", auth: Some(format!("Basic {tok}")), expect: "reject", payload: None });
            out.push(Case { kind: "no-scheme", method: "GET", auth: Some(tok.clone()), expect: "reject", payload: None });
            out.push(Case { kind: "two-spaces", method: "GET", auth: Some(format!("Bearer  {tok}")), expect: "reject", payload: None });
            out.push(Case { kind: "trailing-space", method: "GET", auth: Some(format!("Bearer {tok} ")), expect: "reject", payload: None });
            out.push(Case { kind: "four-parts", method: "GET", auth: bearer(&format!("{tok}.x")), expect: "reject", payload: None });
            out.push(Case { kind: "four-parts", method: "GET", auth: bearer(&format!("{tok}.")), expect: "reject", payload: None });
            out.push(Case { kind: "five-parts", method: "GET", auth: bearer(&format!("{tok}.{tok}")), expect: "reject", payload: None });
            let parts: Vec<&str> = tok.split('.').collect();
            out.push(Case { kind: "two-parts", method: "GET", auth: bearer(&format!("{}.{}", parts[0], parts[1])), expect: "reject", payload: None });
            out.push(Case { kind: "two-parts-dot", method: "GET", auth: bearer(&format!("{}.{}.", parts[0], parts[1])), expect: "reject", payload: None });
            out.push(Case { kind: "one-part", method: "GET", auth: bearer(parts[0]), expect: "reject", payload: None });
            out.push(Case { kind: "empty-header-part", method: "GET", auth: bearer(&format!(".{}.{}", parts[1], parts[2])), expect: "reject", payload: None });
            out.push(Case { kind: "empty-payload-part", method: "GET", auth: bearer(&format!("{}..{}", parts[0], parts[2])), expect: "reject", payload: None });
            out.push(Case { kind: "padded-signature", method: "GET", auth: bearer(&format!("{tok}=")), expect: "reject", payload: None });
            // signature bytes: prefixes, extension, non-canonical trailing bits
            let sig = b64_decode(parts[2].as_bytes(), true, false).unwrap();
            for k in [0usize, 1, 8, sig.len() / 2, sig.len() - 1] {
                out.push(Case { kind: "signature-prefix", method: "GET", auth: bearer(&format!("{}.{}.{}", parts[0], parts[1], b64u(&sig[..k]))), expect: "reject", payload: None });
            }
            // same length, same multiset / checksum of bytes, different tag: a comparison that aggregates instead of comparing byte by byte
            // (xor- or sum-folding, sorting, length-only) admits these
            {
                let same_len = |kind: &'static str, m: Vec<u8>, out: &mut Vec<Case>| {
                    if m != sig {
                        out.push(Case { kind, method: "GET", auth: bearer(&format!("{}.{}.{}", parts[0], parts[1], b64u(&m))), expect: "reject", payload: None });
                    }
                };
                let mut m = sig.clone(); m.reverse(); same_len("signature-reversed", m, &mut out);
                let mut m = sig.clone(); let (i, j) = (rng.below(m.len()), rng.below(m.len())); m.swap(i, j); same_len("signature-bytes-swapped", m, &mut out);
                let mut m = sig.clone(); m.rotate_left(1); same_len("signature-rotated", m, &mut out);
                let mut m = sig.clone(); let (i, j) = (rng.below(m.len()), rng.below(m.len())); if i != j { let bit = 1u8 << rng.below(8); m[i] ^= bit; m[j] ^= bit; } same_len("signature-two-byte-xor-cancels", m, &mut out);
                let mut m = sig.clone(); let (i, j) = (rng.below(m.len()), rng.below(m.len())); if i != j { m[i] = m[i].wrapping_add(1); m[j] = m[j].wrapping_sub(1); } same_len("signature-two-byte-sum-cancels", m, &mut out);
                same_len("signature-all-zero", vec![0u8; sig.len()], &mut out);
                let mut m = sig.clone(); m.sort(); same_len("signature-sorted", m, &mut out);
            }
            let mut ext = sig.clone();
            ext.push(0);
            out.push(Case { kind: "signature-extended", method: "GET", auth: bearer(&format!("{}.{}.{}", parts[0], parts[1], b64u(&ext))), expect: "reject", payload: None });
            {
                // same bytes under a lenient decoder: change only the unused low bits of the last character
                let s = parts[2].as_bytes();
                let last = *s.last().unwrap();
                let i = B64U_ALPHABET.iter().position(|&c| c == last).unwrap();
                let unused = match s.len() % 4 { 2 => 4, 3 => 2, _ => 0 };
                for d in 1..(1usize << unused) {
                    let alt = B64U_ALPHABET[(i & !((1 << unused) - 1)) | ((i + d) & ((1 << unused) - 1))];
                    if alt != last {
                        let mut m = s.to_vec();
                        *m.last_mut().unwrap() = alt;
                        out.push(Case { kind: "signature-noncanonical-bits", method: "GET", auth: bearer(&format!("{}.{}.{}", parts[0], parts[1], String::from_utf8(m).unwrap())), expect: "reject", payload: None });
                    }
                }
            }
            // 2. single-character mutations of the issued token
            let tb = tok.as_bytes();
            let positions: Vec<usize> = if exhaustive_mutations { (0..tb.len()).collect() } else { (0..10).map(|_| rng.below(tb.len())).chain([0, tb.len() - 1, parts[0].len() - 1, parts[0].len() + 1, parts[0].len() + parts[1].len() + 2]).collect() };
            for &i in &positions {
                let mut m = tb.to_vec();
                let c = *rng.pick(b"ABCDEFGHIJKLMNOPQRSTUVWXYZabcdefghijklmnopqrstuvwxyz0123456789-_.=");
                if c != m[i] {
                    m[i] = c;
                    out.push(Case { kind: "substitution", method: "GET", auth: bearer(&String::from_utf8(m).unwrap()), expect: "reject", payload: None });
                }
                let mut m = tb.to_vec();
                m.remove(i);
                out.push(Case { kind: "deletion", method: "GET", auth: bearer(&String::from_utf8(m).unwrap()), expect: "reject", payload: None });
                let mut m = tb.to_vec();
                m.insert(i, *rng.pick(B64U_ALPHABET));
                out.push(Case { kind: "insertion", method: "GET", auth: bearer(&String::from_utf8(m).unwrap()), expect: "reject", payload: None });
            }
        }
    }
    // 3. hand-signed tokens: correct, other secret, other algorithm, key confusion
    let (p, admits) = gen_payload(rng, t);
    out.push(Case { kind: "hand-signed", method: "GET", auth: bearer(&sign(alg, secret, &std_header, &p)), expect: verdict(admits), payload: Some(p.clone()) });
    let (p, _) = (format!(r#"{{"sub":"{}"}}"#, rng.below(1000)), ());
    let other_secret = format!("{secret}x");
    out.push(Case { kind: "other-secret", method: "GET", auth: bearer(&sign(alg, &other_secret, &std_header, &p)), expect: "reject", payload: None });
    // (HMAC pads short keys with zero bytes, so dropping a trailing NUL gives an equivalent key: not a different secret)
    if !secret.is_empty() && !secret.ends_with('\0') {
        out.push(Case { kind: "secret-prefix", method: "GET", auth: bearer(&sign(alg, &secret[..secret.char_indices().last().unwrap().0], &std_header, &p)), expect: "reject", payload: None });
    }
    for other in 0..3 {
        if other != alg {
            let oh = format!(r#"{{"typ":"JWT","alg":"{}"}}"#, ALGS[other]);
            // properly signed under the other algorithm, header says so
            out.push(Case { kind: "other-alg", method: "GET", auth: bearer(&sign(other, secret, &oh, &p)), expect: "reject", payload: None });
            // header names the configured algorithm, MAC computed with another
            out.push(Case { kind: "alg-confusion", method: "GET", auth: bearer(&sign(other, secret, &std_header, &p)), expect: "reject", payload: None });
            // header names another algorithm, MAC computed with the configured one
            out.push(Case { kind: "alg-header-mismatch", method: "GET", auth: bearer(&sign(alg, secret, &oh, &p)), expect: "reject", payload: None });
        }
    }
    // 4. alg none / missing / wrong case / not a string
    for h in [r#"{"typ":"JWT","alg":"none"}"#.to_string(), r#"{"typ":"JWT","alg":"None"}"#.into(), r#"{"typ":"JWT"}"#.into(), format!(r#"{{"typ":"JWT","alg":"{}"}}"#, ALGS[alg].to_lowercase()),
              r#"{"typ":"JWT","alg":null}"#.into(), format!(r#"{{"typ":"JWT","alg":["{}"]}}"#, ALGS[alg]), "[]".into(), "null".into(), format!(r#"{{"alg":"{} "}}"#, ALGS[alg])] {
        let signed = sign(alg, secret, &h, &p);
        out.push(Case { kind: "alg-variant-signed", method: "GET", auth: bearer(&signed), expect: "reject", payload: None });
        let parts: Vec<&str> = signed.split('.').collect();
        out.push(Case { kind: "alg-variant-unsigned", method: "GET", auth: bearer(&format!("{}.{}.", parts[0], parts[1])), expect: "reject", payload: None });
    }
    // 5. header field variants, correctly signed: the statement requires the algorithm only
    for h in [format!(r#"{{"alg":"{}"}}"#, ALGS[alg]), format!(r#"{{"alg":"{}","typ":"jwt"}}"#, ALGS[alg]), format!(r#"{{"alg":"{}","typ":"JOSE"}}"#, ALGS[alg]),
              format!(r#"{{"alg":"{}","cty":"x"}}"#, ALGS[alg]), format!(r#"{{"alg":"{}","kid":"1","typ":"JWT"}}"#, ALGS[alg]), format!(r#" {{ "alg" : "{}" }} "#, ALGS[alg])] {
        out.push(Case { kind: "header-variant-signed", method: "GET", auth: bearer(&sign(alg, secret, &h, &p)), expect: "either", payload: Some(p.clone()) });
    }
    // payload that is not JSON / not an object, correctly signed
    for pl in ["not json", "", "[1,2]", "7"] {
        out.push(Case { kind: "payload-variant-signed", method: "GET", auth: bearer(&sign(alg, secret, &std_header, pl)), expect: "either", payload: Some(pl.to_string()) });
    }
    // 8. arbitrary strings / no header
    out.push(Case { kind: "no-header", method: "GET", auth: None, expect: "reject", payload: None });
    out.push(Case { kind: "empty", method: "GET", auth: Some(String::new()), expect: "reject", payload: None });
    out.push(Case { kind: "bearer-only", method: "GET", auth: Some("Bearer ".into()), expect: "reject", payload: None });
    out.push(Case { kind: "dots", method: "GET", auth: bearer(".."), expect: "reject", payload: None });
    for _ in 0..3 {
        out.push(Case { kind: "random", method: "GET", auth: bearer(&rng.string_over(b"ABCabc0123-_.=", 0, 80)), expect: "reject", payload: None });
    }
    out.push(Case { kind: "options-no-header", method: "OPTIONS", auth: None, expect: "reject", payload: None });
    out
}

/// Claims exactly at the current second. RFC 7519: the current time must be *before* `exp` (exp == now is expired) and *not before*
/// `nbf` (nbf == now is valid); `iat == now` is not in the future. The clock is read immediately before and after the request: the
/// observation counts only if both readings are the claim's second, so the verdict does not depend on how fast anything ran.
fn boundary(rep: &mut Report) {
    for alg in 0..3 {
        let secret = "boundary-secret";
        let router = app(alg, secret);
        let header = format!(r#"{{"typ":"JWT","alg":"{}"}}"#, ALGS[alg]);
        for (claim, expect) in [("exp", "reject"), ("nbf", "accept"), ("iat", "accept"), ("exp+1", "accept"), ("nbf+1", "reject")] {
            for _attempt in 0..6 {
                let target = now() + 1;
                let t = std::time::Instant::now();
                while now() < target && t.elapsed() < std::time::Duration::from_secs(3) {
                    std::thread::sleep(std::time::Duration::from_micros(200));
                }
                let payload = match claim {
                    "exp" => format!(r#"{{"sub":"b","exp":{target}}}"#),
                    "exp+1" => format!(r#"{{"sub":"b","exp":{}}}"#, target + 1),
                    "nbf+1" => format!(r#"{{"sub":"b","exp":{},"nbf":{}}}"#, target + 1000, target + 1),
                    c => format!(r#"{{"sub":"b","exp":{},"{c}":{target}}}"#, target + 1000),
                };
                let bytes = format!("GET /p HTTP/1.1\r\nHost: t\r\nAuthorization: Bearer {}\r\n\r\n", sign(alg, secret, &header, &payload)).into_bytes();
                SEEN.with(|s| s.borrow_mut().clear());
                let t0 = now();
                let _ = web::oneshot(&router, &bytes);
                let t1 = now();
                if t0 != target || t1 != target {
                    rep.count("boundary:clock-moved-observation-discarded");
                    continue;
                }
                rep.eval();
                rep.count(&format!("boundary:{claim}-relative-to-now"));
                rep.distinct(&format!("{}:boundary:{claim}", ALGS[alg]));
                let ran = SEEN.with(|s| !s.borrow().is_empty());
                let cj = json!({"case_index": u64::MAX, "alg": ALGS[alg], "payload": payload, "verified_at_second": target, "handler_ran": ran});
                match (expect, ran) {
                    ("reject", true) => rep.violation(&format!("C12/false-admission:boundary:{claim}"), &format!("token with {claim} relative to the verification second {target} was admitted (payload {payload})"), cj),
                    ("accept", false) => rep.violation(&format!("C12/false-rejection:boundary:{claim}"), &format!("token with {claim} relative to the verification second {target} was refused (payload {payload})"), cj),
                    _ => {}
                }
                break;
            }
        }
    }
}

/// Two JWT fangs on one request path (an outer application that authenticates users, an inner one mounted below it with another secret /
/// algorithm that reads its token from another header), both with the same payload type. Each fang decides for itself: the handler behind
/// the inner fang runs only if the inner token is valid under the INNER configuration, whatever the outer fang admitted before, and it sees
/// the inner token's payload.
fn nested(rep: &mut Report, rng: &mut Rng, case: u64) {
    let (oa, ia) = (rng.below(3), rng.below(3));
    let (osec, isec) = (format!("outer-{}", rng.string_over(b"abcdef0123456789", 8, 40)), format!("inner-{}", rng.string_over(b"abcdef0123456789", 8, 40)));
    let mk = |alg: usize, secret: &str| -> JWT<Value> { let s = secret.to_string(); match alg { 0 => JWT::new_256(s), 1 => JWT::new_384(s), _ => JWT::new_512(s) } };
    let h = |Context(p): Context<'_, Value>| {
        SEEN.with(|s| s.borrow_mut().push(serde_json::to_string(p).unwrap()));
        async { "in" }
    };
    #[cfg(not(feature = "openapi"))]
    let inner_fang = mk(ia, &isec).get_token_by(|req| req.headers.get("X-Admin-Token"));
    #[cfg(feature = "openapi")]
    let inner_fang = mk(ia, &isec).get_token_by(|req| req.headers.get("X-Admin-Token"), ohkami::openapi::SecurityScheme::Bearer("adminToken", None));
    let inner = Ohkami::new((inner_fang, "/q".GET(h)));
    let router = hook::Router::new(Ohkami::new((mk(oa, &osec), "/p".GET(h), "/admin".By(inner))));
    let t = now();
    let hdr = |alg: usize| format!(r#"{{"typ":"JWT","alg":"{}"}}"#, ALGS[alg]);
    let opay = format!(r#"{{"sub":"user","who":"outer","exp":{}}}"#, t + 1000);
    let ipay = format!(r#"{{"sub":"root","who":"inner","exp":{}}}"#, t + 1000);
    let otok = sign(oa, &osec, &hdr(oa), &opay);
    let itok = sign(ia, &isec, &hdr(ia), &ipay);
    // (label, Authorization token, X-Admin-Token, path, expect run, payload the handler must see)
    let cases: Vec<(&str, Option<String>, Option<String>, &str, bool, &str)> = vec![
        ("both-valid", Some(otok.clone()), Some(itok.clone()), "/admin/q", true, &ipay),
        ("outer-only", Some(otok.clone()), None, "/admin/q", false, ""),
        ("outer-token-as-inner", Some(otok.clone()), Some(otok.clone()), "/admin/q", false, ""),
        ("inner-signed-with-outer-key", Some(otok.clone()), Some(sign(ia, &osec, &hdr(ia), &ipay)), "/admin/q", false, ""),
        ("inner-alg-none", Some(otok.clone()), Some(format!("{}.{}.", b64u(br#"{"typ":"JWT","alg":"none"}"#), b64u(ipay.as_bytes()))), "/admin/q", false, ""),
        ("inner-expired", Some(otok.clone()), Some(sign(ia, &isec, &hdr(ia), &format!(r#"{{"sub":"root","exp":{}}}"#, t - 1000))), "/admin/q", false, ""),
        ("inner-only", None, Some(itok.clone()), "/admin/q", false, ""),
        ("outer-route-with-outer-token", Some(otok.clone()), None, "/p", true, &opay),
        ("outer-route-with-inner-token", Some(itok.clone()), Some(itok.clone()), "/p", oa == ia && osec == isec, &ipay),
    ];
    for (label, auth, admin, path, expect, pay) in cases {
        let mut bytes = format!("GET {path} HTTP/1.1\r\nHost: t\r\n").into_bytes();
        if let Some(a) = &auth { bytes.extend_from_slice(format!("Authorization: Bearer {a}\r\n").as_bytes()) }
        if let Some(a) = &admin { bytes.extend_from_slice(format!("X-Admin-Token: {a}\r\n").as_bytes()) }
        bytes.extend_from_slice(b"\r\n");
        SEEN.with(|s| s.borrow_mut().clear());
        let _ = web::oneshot(&router, &bytes);
        let seen: Vec<String> = SEEN.with(|s| s.borrow().clone());
        rep.eval();
        rep.count("nested_fang_requests");
        rep.distinct(&format!("nested:{label}:{}:{}", ALGS[oa], ALGS[ia]));
        let cj = json!({"case_index": case, "scenario": "nested", "label": label, "outer": {"alg": ALGS[oa], "secret": osec}, "inner": {"alg": ALGS[ia], "secret": isec}, "authorization": auth, "x_admin_token": admin, "path": path, "seen": seen});
        match (expect, seen.last()) {
            (false, Some(_)) => rep.violation(&format!("C12/false-admission:nested:{label}"), &format!("two JWT fangs on the path: the handler behind the inner fang ran for {label}"), cj),
            (true, None) => rep.violation(&format!("C12/false-rejection:nested:{label}"), &format!("two JWT fangs on the path: {label} was refused"), cj),
            (true, Some(p)) => {
                let (want, got): (Option<Value>, Option<Value>) = (serde_json::from_str(pay).ok(), serde_json::from_str(p).ok());
                if want != got { rep.violation("C12/payload-mismatch:nested", &format!("the handler saw {p}, the token of its own fang carries {pay}"), cj) }
            }
            _ => {}
        }
    }
}

pub fn run(args: &Args, rep: &mut Report) {
    let small = args.flag("small").is_some();
    if args.shard == 0 && args.start == 0 && !small {
        boundary(rep);
    }
    let dump_path = args.flag("dump").map(|d| format!("{d}/c12-cases-{}-{}.jsonl", args.shard, args.start));
    let mut dump = dump_path.as_ref().map(|p| std::io::BufWriter::new(std::fs::File::create(p).expect("dump file")));
    let mut case = args.shard;
    while case < args.budget {
        if case >= args.start {
            rep.begin(case);
            let mut rng = Rng::derive(args.seed, 12, case);
            if case % 4 == 1 {
                let mut r2 = Rng::derive(args.seed, 1212, case);
                nested(rep, &mut r2, case);
            }
            let alg = rng.below(3);
            let secret = gen_secret(&mut rng);
            let router = app(alg, &secret);
            let t = now();
            let mut cases = gen_cases(&mut rng, alg, &secret, t, !small && case % 16 == 0);
            if small {
                cases = cases.into_iter().step_by(7).collect();
            }
            for (k, c) in cases.iter().enumerate() {
                rep.eval();
                rep.count(&format!("kind:{}", c.kind));
                rep.distinct(&format!("{}:{}", ALGS[alg], c.kind));
                let mut bytes = format!("{} /p HTTP/1.1\r\nHost: t\r\n", c.method).into_bytes();
                if let Some(a) = &c.auth {
                    bytes.extend_from_slice(format!("Authorization: {a}\r\n").as_bytes());
                }
                bytes.extend_from_slice(b"\r\n");
                SEEN.with(|s| s.borrow_mut().clear());
                let t0 = now();
                let step = web::oneshot(&router, &bytes);
                let t1 = now();
                let seen: Vec<String> = SEEN.with(|s| s.borrow().clone());
                let ran = !seen.is_empty();
                let (status, outcome) = match &step {
                    Step::Handled(b) | Step::Refused(b) => (parse_response(b, false).map(|r| r.status).unwrap_or(0), "response".to_string()),
                    Step::Panicked(p) => (0, format!("panic: {p}")),
                    other => (0, other.kind().to_string()),
                };
                let rec = json!({"case_index": case, "k": k, "alg": ALGS[alg], "secret_hex": crate::rng::hex(secret.as_bytes()), "kind": c.kind, "method": c.method, "authorization": c.auth,
                    "t0": t0, "t1": t1, "ran": ran, "seen": seen.first(), "status": status, "outcome": outcome, "worker_expect": c.expect, "worker_payload": c.payload});
                if let Some(d) = dump.as_mut() {
                    let _ = writeln!(d, "{}", rec);
                }
                if ran { rep.count("accepted") } else { rep.count("rejected") }
                // the worker's own judgement (the python judge decides; both are reported)
                let viol: Option<(String, String)> = if outcome != "response" {
                    Some((format!("C12/{}", if outcome.starts_with("panic") { format!("panic@{}", crate::report::panic_site(&outcome)) } else { outcome.clone() }), format!("request ended as {outcome}")))
                } else {
                    match (c.expect, ran) {
                        ("reject", true) => Some((format!("C12/false-admission:{}", c.kind), format!("handler ran for a token of kind {}", c.kind))),
                        ("reject", false) if !(400..600).contains(&status) && c.method != "OPTIONS" => Some((format!("C12/refusal-status:{}", c.kind), format!("refused with status {status}"))),
                        ("accept", false) => Some((format!("C12/false-rejection:{}", c.kind), format!("issued token refused with status {status}"))),
                        (_, true) => {
                            let want: Option<Value> = c.payload.as_ref().and_then(|p| serde_json::from_str(p).ok());
                            let got: Option<Value> = seen.first().and_then(|p| serde_json::from_str(p).ok());
                            if want.is_some() && want != got { Some(("C12/payload-mismatch".to_string(), format!("handler saw {:?}, signed payload {:?}", seen.first(), c.payload))) } else { None }
                        }
                        _ => None,
                    }
                };
                if let Some((sig, what)) = viol {
                    rep.violation(&sig, &what, rec.clone());
                }
                if rep.want_sample() && (c.kind == "alg-confusion" || c.kind == "signature-prefix") {
                    rep.sample(json!({"alg": ALGS[alg], "kind": c.kind, "authorization": c.auth, "handler_ran": ran, "status": status}));
                }
            }
            rep.end(case);
        }
        case += args.nshards;
    }
    if let Some(mut d) = dump {
        let _ = d.flush();
    }
}
