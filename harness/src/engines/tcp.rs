//! TCP cross-check of the session mirror: the real `Ohkami::howl` (real `Session::manage`) runs in a
//! child process; a blocking client sends generated sequences in lock-step over loopback and the
//! responses are compared with what the in-memory mirror produces for the same sequence.

use crate::catalog::{self, normalise};
use crate::engines::c05::{gen_long_sequence, gen_sequence, SeqReq};
use crate::httpref::{parse_response, Framing};
use crate::memconn::{End, Seg};
use crate::report::{Args, Report};
use crate::rng::Rng;
use crate::web::{self, Step};
use ohkami::__verif__ as hook;
use serde_json::json;
use std::io::{Read, Write};
use std::net::TcpStream;
use std::time::Duration;

/// `vh serve --port N`: the catalogue application behind the real howl, multi-thread runtime
pub fn serve(args: &Args) {
    let port: u16 = args.flag("port").expect("--port").parse().expect("port");
    let rt = tokio::runtime::Builder::new_multi_thread().worker_threads(4).enable_all().build().expect("runtime");
    rt.block_on(async move {
        catalog::app().howl(("127.0.0.1", port)).await;
    });
}

pub struct Server {
    pub child: std::process::Child,
    pub port: u16,
}
impl Drop for Server {
    fn drop(&mut self) {
        let _ = self.child.kill();
        let _ = self.child.wait();
    }
}

pub fn free_port() -> u16 {
    let l = std::net::TcpListener::bind(("127.0.0.1", 0)).expect("bind");
    l.local_addr().unwrap().port()
}

/// stderr of child processes goes to <VH_SCRATCH>/child-<tag>.stderr, where the driver looks for sanitizer reports
pub fn child_stderr(tag: &str) -> std::process::Stdio {
    match std::env::var("VH_SCRATCH") {
        Ok(d) => match std::fs::File::create(std::path::Path::new(&d).join(format!("child-{tag}-{}.stderr", std::process::id()))) {
            Ok(f) => std::process::Stdio::from(f),
            Err(_) => std::process::Stdio::null(),
        },
        Err(_) => std::process::Stdio::null(),
    }
}

pub fn spawn_server(subcommand: &str, extra: &[&str]) -> Result<Server, String> {
    use std::os::unix::process::CommandExt;
    for _ in 0..5 {
        let port = free_port();
        let mut cmd = std::process::Command::new(std::env::current_exe().map_err(|e| e.to_string())?);
        cmd.arg(subcommand).arg("--port").arg(port.to_string()).arg("--out").arg("/dev/null");
        for e in extra.chunks(2) {
            cmd.arg(e[0]).arg(e[1]);
        }
        cmd.env("OHKAMI_KEEPALIVE_TIMEOUT", "20").stdout(std::process::Stdio::null()).stderr(child_stderr(&format!("{subcommand}-{port}")));
        unsafe {
            cmd.pre_exec(|| {
                libc::prctl(libc::PR_SET_PDEATHSIG, libc::SIGKILL);
                Ok(())
            });
        }
        let mut child = cmd.spawn().map_err(|e| e.to_string())?;
        // wait until it accepts
        let mut ok = false;
        for _ in 0..200 {
            if let Ok(Some(_)) = child.try_wait() {
                break;
            }
            if TcpStream::connect(("127.0.0.1", port)).is_ok() {
                ok = true;
                break;
            }
            std::thread::sleep(Duration::from_millis(25));
        }
        if ok {
            return Ok(Server { child, port });
        }
        let _ = child.kill();
        let _ = child.wait();
    }
    Err("server child did not come up".into())
}

#[derive(Debug, Clone, PartialEq)]
pub enum Wire {
    Response(Vec<u8>),
    /// peer closed without (complete) response
    Eof(Vec<u8>),
    Timeout(Vec<u8>),
}

pub fn read_response(s: &mut TcpStream, head: bool) -> Wire {
    let mut buf = vec![];
    let mut tmp = [0u8; 8192];
    loop {
        if let Ok(r) = parse_response(&buf, head) {
            if r.framing != Framing::UntilClose {
                buf.truncate(r.consumed);
                return Wire::Response(buf);
            }
        }
        match s.read(&mut tmp) {
            Ok(0) => return Wire::Eof(buf),
            Ok(n) => buf.extend_from_slice(&tmp[..n]),
            Err(e) if e.kind() == std::io::ErrorKind::WouldBlock || e.kind() == std::io::ErrorKind::TimedOut => return Wire::Timeout(buf),
            Err(_) => return Wire::Eof(buf),
        }
    }
}

/// lock-step: write request k, read response k completely, then k+1
/// `no_body`: per request, whether its response is known to carry no body although it announces a length (answer to a well-formed HEAD)
pub fn run_sequence(port: u16, seq: &[SeqReq], no_body: &[bool]) -> Result<(Vec<Wire>, bool), String> {
    run_sequence_paced(port, seq, no_body, false)
}

/// `paced`: head and body are written separately (TCP_NODELAY, short pauses), the body in several pieces
pub fn run_sequence_paced(port: u16, seq: &[SeqReq], no_body: &[bool], paced: bool) -> Result<(Vec<Wire>, bool), String> {
    let mut s = TcpStream::connect(("127.0.0.1", port)).map_err(|e| e.to_string())?;
    s.set_nodelay(true).ok();
    s.set_read_timeout(Some(Duration::from_secs(5))).ok();
    let mut out = vec![];
    let mut closed_by_server = false;
    for (i, r) in seq.iter().enumerate() {
        let wrote = if paced && r.bytes.len() > r.head_len + 1 {
            let body = &r.bytes[r.head_len..];
            let cut = 1 + (body.len() - 1) / 2;
            let pause = || std::thread::sleep(Duration::from_millis(4));
            s.write_all(&r.bytes[..r.head_len]).and_then(|_| { pause(); s.write_all(&body[..cut]) }).and_then(|_| { pause(); s.write_all(&body[cut..]) })
        } else {
            s.write_all(&r.bytes)
        };
        if wrote.is_err() {
            out.push(Wire::Eof(vec![]));
            closed_by_server = true;
            break;
        }
        let w = read_response(&mut s, no_body.get(i).copied().unwrap_or(false));
        let stop = !matches!(w, Wire::Response(_));
        out.push(w);
        if stop {
            closed_by_server = true;
            break;
        }
    }
    if !closed_by_server {
        // is the connection still open? a short read with timeout: EOF = closed by the server
        s.set_read_timeout(Some(Duration::from_millis(60))).ok();
        let mut b = [0u8; 1];
        closed_by_server = matches!(s.read(&mut b), Ok(0));
    }
    Ok((out, closed_by_server))
}

pub fn run(args: &Args, rep: &mut Report) {
    let router = hook::Router::new(catalog::app());
    let server = match spawn_server("serve", &[]) {
        Ok(s) => s,
        Err(e) => {
            rep.count("inconclusive:server-did-not-start");
            eprintln!("tcp engine: {e}");
            return;
        }
    };
    let paced = args.flag("mode") == Some("c06");
    let mut case = args.shard;
    while case < args.budget {
        if case >= args.start {
            rep.begin(case);
            let mut rng = Rng::derive(args.seed, 55, case);
            // every 16th connection is long-lived (100-520 requests, none asking to close): the real session loop must go on like the mirror
            let seq = if !paced && case % 16 == 5 { rep.count("tcp_long_sequences"); let n = *rng.pick(&[101usize, 130, 260, 520]); gen_long_sequence(&mut rng, n, false) }
                else { gen_sequence(&mut rng, if paced { 4 } else { 8 }, !paced, false) };
            check(rep, case, &router, server.port, &seq, paced);
            rep.end(case);
        }
        case += args.nshards;
    }
}

fn check(rep: &mut Report, case: u64, router: &hook::Router, port: u16, seq: &[SeqReq], paced: bool) {
    // what the mirror says
    let sess = web::session(router, seq.iter().map(|r| Seg::Data(r.bytes.clone())).collect(), End::Hang, seq.len() + 1, |_| {});
    let mirror: Vec<Step> = sess.steps.clone();
    let mirror_closes = !matches!(mirror.last(), Some(Step::Stuck));
    let mut attempt = 0;
    loop {
        attempt += 1;
        // an error response of the reader to a malformed HEAD request does carry its body
        let no_body: Vec<bool> = seq.iter().enumerate().map(|(i, r)| r.bytes.starts_with(b"HEAD ") && matches!(mirror.get(i), Some(Step::Handled(_)))).collect();
        let (wire, closed) = match run_sequence_paced(port, seq, &no_body, paced) {
            Ok(x) => x,
            Err(e) => {
                rep.count("inconclusive:connect-failed");
                eprintln!("tcp engine: {e}");
                return;
            }
        };
        let mut diff: Option<String> = None;
        let mut k = 0;
        for (i, st) in mirror.iter().enumerate() {
            match st {
                Step::Handled(b) | Step::Refused(b) => {
                    match wire.get(i) {
                        Some(Wire::Response(w)) if normalise(w) == normalise(b) => {}
                        other => {
                            diff = Some(format!("response {i}: tcp {:?} vs mirror {}", other.map(|o| describe(o)), crate::rng::show(&normalise(b)[..b.len().min(300)])));
                            break;
                        }
                    }
                    k = i + 1;
                }
                Step::Closed => {
                    // the mirror closes here: the real session must not answer request i
                    if let Some(Wire::Response(w)) = wire.get(i) {
                        diff = Some(format!("request {i}: tcp answered {} but the mirror closes the session", crate::rng::show(&w[..w.len().min(200)])));
                    }
                    break;
                }
                Step::Stuck => break,
                Step::Panicked(p) => {
                    // a panicking handler kills the real session task: the client sees EOF
                    if let Some(Wire::Response(_)) = wire.get(i) {
                        diff = Some(format!("request {i}: mirror panicked ({p}) but tcp answered"));
                    }
                    break;
                }
                Step::Budget => break,
            }
        }
        if diff.is_none() && wire.len() > k && matches!(wire.get(k), Some(Wire::Response(_))) && mirror.len() <= k {
            diff = Some(format!("tcp produced more responses ({}) than the mirror ({k})", wire.len()));
        }
        if diff.is_none() && mirror_closes != closed && !mirror.iter().any(|s| matches!(s, Step::Panicked(_))) {
            diff = Some(format!("connection closed by the server: tcp {closed}, mirror {mirror_closes}"));
        }
        rep.eval();
        match diff {
            None => {
                rep.count("tcp_sequences_agreeing_with_mirror");
                rep.count_n("tcp_responses_compared", k as u64);
                rep.distinct(&seq.iter().map(|r| r.shape.clone()).collect::<Vec<_>>().join(">"));
                if rep.want_sample() {
                    rep.sample(json!({"requests": seq.len(), "responses_compared": k, "server_closed": closed}));
                }
                return;
            }
            Some(_) if attempt >= 2 && paced => {
                // the kernel may coalesce paced writes: a disagreement here is inconclusive, never a violation
                rep.count("tcp_paced_disagreement_inconclusive");
                return;
            }
            Some(d) if attempt >= 2 => {
                rep.violation("C05/tcp-differs-from-mirror", &d, json!({"case_index": case, "sequence": seq.iter().map(|r| crate::rng::show(&r.bytes[..r.bytes.len().min(200)])).collect::<Vec<_>>(), "diff": d}));
                return;
            }
            Some(_) => {
                rep.count("tcp_retries");
            }
        }
    }
}

fn describe(w: &Wire) -> String {
    match w {
        Wire::Response(b) => format!("response {}", crate::rng::show(&normalise(b)[..b.len().min(300)])),
        Wire::Eof(b) => format!("EOF after {} bytes", b.len()),
        Wire::Timeout(b) => format!("timeout after {} bytes", b.len()),
    }
}
