pub mod c01;
pub mod c02;
pub mod c03;
pub mod c04;
pub mod c05;
pub mod c07;
pub mod c08;
pub mod c09;
pub mod c10;
pub mod c11;
pub mod c12;
pub mod c13;
pub mod c14;
#[cfg(feature = "openapi")]
pub mod c15;
pub mod c17;
pub mod c18;
pub mod c19;
pub mod c20;
pub mod tcp;

use crate::report::{Args, Report};

pub fn dispatch(args: &Args, rep: &mut Report) -> bool {
    match args.engine.as_str() {
        "noop" => {}
        "c01" => c01::run(args, rep),
        "c02" => c02::run(args, rep),
        "c03" => c03::run(args, rep),
        "c04" => c04::run(args, rep),
        "c05" => c05::run(args, rep),
        "c05tcp" => tcp::run(args, rep),
        "serve" => tcp::serve(args),
        "c07" => c07::run(args, rep),
        "c08" => c08::run(args, rep),
        "c09" => c09::run(args, rep),
        "c10" => c10::run(args, rep),
        "c11" => c11::run(args, rep),
        "c12" => c12::run(args, rep),
        "c13" => c13::run(args, rep),
        "c14" => c14::run(args, rep),
        #[cfg(feature = "openapi")]
        "c15" => c15::run(args, rep),
        "c17" => c17::run(args, rep),
        "c18" => c18::run(args, rep),
        "c18child" => c18::child(args),
        "c19" => c19::run(args, rep),
        "c20" => c20::run(args, rep),
        "fuzzreplay" => crate::fuzz::replay(args, rep),
        _ => return false,
    }
    true
}
