//! C07 – typed path / query / body extraction against reference parsing.

use crate::httpref::{parse_response, percent_decode_strict, percent_encode_all};
use crate::report::{Args, Report};
use crate::rng::Rng;
use crate::trace::{self, Ev};
use crate::web::{self, Step};
use ohkami::format::{Multipart, Query, Text, URLEncoded, JSON};
use ohkami::__verif__ as hook;
use ohkami::serde::Deserialize;
use ohkami::{Ohkami, Route};
use serde_json::json;
use std::borrow::Cow;

#[derive(Deserialize, Debug, PartialEq, Clone)]
#[cfg_attr(feature = "openapi", derive(ohkami::openapi::Schema))]
pub struct Form {
    pub a: u32,
    pub s: String,
}
#[derive(Deserialize, Debug, PartialEq, Clone)]
#[cfg_attr(feature = "openapi", derive(ohkami::openapi::Schema))]
pub struct Doc {
    pub n: i64,
    pub name: String,
    #[serde(default)]
    pub tags: Vec<String>,
    pub opt: Option<bool>,
}

/// multipart text fields decode into string-like types only
#[derive(Deserialize, Debug, PartialEq, Clone)]
#[cfg_attr(feature = "openapi", derive(ohkami::openapi::Schema))]
pub struct MForm {
    pub a: String,
    pub s: String,
}

/// an upload form: text next to files (one optional, one list); an uploaded file may well be empty (`.gitkeep`, `__init__.py`)
#[derive(Deserialize, Debug)]
pub struct UForm<'req> {
    pub title: String,
    #[serde(borrow)]
    pub doc: Option<ohkami::format::File<'req>>,
    #[serde(rename = "pics", borrow, default)]
    pub pics: Vec<ohkami::format::File<'req>>,
}
#[cfg(feature = "openapi")]
impl ohkami::openapi::Schema for UForm<'_> {
    fn schema() -> impl Into<ohkami::openapi::schema::SchemaRef> { ohkami::openapi::object() }
}
fn show_file(f: &ohkami::format::File<'_>) -> String { format!("{}|{}|{}", f.filename, f.mimetype, crate::rng::hex(f.content)) }
async fn upload(Multipart(f): Multipart<UForm<'_>>) -> &'static str {
    trace::push(Ev::Handler(27, vec![f.title.clone(), f.doc.as_ref().map(show_file).unwrap_or_else(|| "<none>".into()), f.pics.iter().map(show_file).collect::<Vec<_>>().join(",")]));
    "ok"
}

fn show_form(f: &Form) -> Vec<String> {
    vec![f.a.to_string(), f.s.clone()]
}
fn show_doc(d: &Doc) -> Vec<String> {
    vec![d.n.to_string(), d.name.clone(), d.tags.join("|"), format!("{:?}", d.opt)]
}

const INT_TYPES: [&str; 10] = ["u8", "u16", "u32", "u64", "usize", "i8", "i16", "i32", "i64", "isize"];

macro_rules! int_routes {
    ($( $t:ident $id:literal ),*) => {
        fn int_items() -> Vec<hook::Item> {
            let mut v = vec![];
            $(
                v.push(hook::Item::Handlers(concat!("/t/", stringify!($t), "/:p").GET(|p: $t| { trace::push(Ev::Handler($id, vec![p.to_string()])); async { "ok" } })));
                v.push(hook::Item::Handlers(concat!("/tt/", stringify!($t), "/:p").GET(|(p,): ($t,)| { trace::push(Ev::Handler($id + 100, vec![p.to_string()])); async { "ok" } })));
                v.push(hook::Item::Handlers(concat!("/t2/", stringify!($t), "/:a/:b").GET(|(a, b): ($t, String)| { trace::push(Ev::Handler($id + 200, vec![a.to_string(), b])); async { "ok" } })));
                v.push(hook::Item::Handlers(concat!("/t3/", stringify!($t), "/:a/:b").GET(|(a, b): (String, $t)| { trace::push(Ev::Handler($id + 300, vec![a, b.to_string()])); async { "ok" } })));
            )*
            v
        }
        /// reference: Rust FromStr on the whole decoded segment
        fn parse_ref(ty: &str, s: &str) -> Option<String> {
            match ty {
                $( stringify!($t) => s.parse::<$t>().ok().map(|v| v.to_string()), )*
                _ => unreachable!(),
            }
        }
    };
}
int_routes! { u8 1, u16 2, u32 3, u64 4, usize 5, i8 6, i16 7, i32 8, i64 9, isize 10 }

fn app() -> Ohkami {
    let mut items = int_items();
    // string-like params
    items.push(hook::Item::Handlers("/t/String/:p".GET(|p: String| { trace::push(Ev::Handler(11, vec![p])); async { "ok" } })));
    items.push(hook::Item::Handlers("/t/Cow/:p".GET(|p: Cow<'_, str>| { trace::push(Ev::Handler(12, vec![p.into_owned()])); async { "ok" } })));
    items.push(hook::Item::Handlers("/t/str/:p".GET(|p: &str| { trace::push(Ev::Handler(13, vec![p.to_string()])); async { "ok" } })));
    items.push(hook::Item::Handlers("/t2/String/:a/:b".GET(|(a, b): (String, Cow<'_, str>)| { trace::push(Ev::Handler(211, vec![a, b.into_owned()])); async { "ok" } })));
    // extractors
    items.push(hook::Item::Handlers("/x/query".GET(|Query(q): Query<Form>| { trace::push(Ev::Handler(20, show_form(&q))); async { "ok" } })));
    items.push(hook::Item::Handlers("/x/json".POST(|JSON(d): JSON<Doc>| { trace::push(Ev::Handler(21, show_doc(&d))); async { "ok" } })));
    items.push(hook::Item::Handlers("/x/form".POST(|URLEncoded(f): URLEncoded<Form>| { trace::push(Ev::Handler(22, show_form(&f))); async { "ok" } })));
    items.push(hook::Item::Handlers("/x/multipart".POST(|Multipart(f): Multipart<MForm>| { trace::push(Ev::Handler(23, vec![f.a.clone(), f.s.clone()])); async { "ok" } })));
    items.push(hook::Item::Handlers("/x/upload".POST(upload)));
    items.push(hook::Item::Handlers("/x/text".POST(|Text(t): Text<String>| { trace::push(Ev::Handler(24, vec![t])); async { "ok" } })));
    // optional extractors
    items.push(hook::Item::Handlers("/o/json".POST(|d: Option<JSON<Doc>>| { trace::push(Ev::Handler(31, match &d { Some(JSON(d)) => show_doc(d), None => vec!["<none>".into()] })); async { "ok" } })));
    items.push(hook::Item::Handlers("/o/form".POST(|f: Option<URLEncoded<Form>>| { trace::push(Ev::Handler(32, match &f { Some(URLEncoded(f)) => show_form(f), None => vec!["<none>".into()] })); async { "ok" } })));
    items.push(hook::Item::Handlers("/o/text".POST(|t: Option<Text<String>>| { trace::push(Ev::Handler(34, match t { Some(Text(t)) => vec![t], None => vec!["<none>".into()] })); async { "ok" } })));
    // combinations: param + query + body
    items.push(hook::Item::Handlers("/c/:id".POST(|id: u32, Query(q): Query<Form>, JSON(d): JSON<Doc>| {
        trace::push(Ev::Handler(40, [vec![id.to_string()], show_form(&q), show_doc(&d)].concat()));
        async { "ok" }
    })));
    items.push(hook::Item::Handlers("/c2/:a/:b".POST(|(a, b): (i16, String), Query(q): Query<Form>, t: Option<Text<String>>| {
        trace::push(Ev::Handler(41, [vec![a.to_string(), b], show_form(&q), vec![t.map(|t| t.0).unwrap_or("<none>".into())]].concat()));
        async { "ok" }
    })));
    // every arity of the handler signature: one and two path params with 0-4 further items (each arity is a separate impl in ohkami)
    macro_rules! arity {
        ($route1:literal, $route2:literal, $id1:expr, $id2:expr $(, $x:ident : $t:ty)*) => {
            items.push(hook::Item::Handlers($route1.GET(|a: u32 $(, $x: $t)*| { $( let _ = &$x; )* trace::push(Ev::Handler($id1, vec![a.to_string()])); async { "ok" } })));
            items.push(hook::Item::Handlers($route2.GET(|(a, b): (u32, i64) $(, $x: $t)*| { $( let _ = &$x; )* trace::push(Ev::Handler($id2, vec![a.to_string(), b.to_string()])); async { "ok" } })));
        };
    }
    arity!("/m0/:a", "/n0/:a/:b", 500, 510);
    arity!("/m1/:a", "/n1/:a/:b", 501, 511, x1: Option<Text<String>>);
    arity!("/m2/:a", "/n2/:a/:b", 502, 512, x1: Option<Text<String>>, x2: Option<JSON<Doc>>);
    arity!("/m3/:a", "/n3/:a/:b", 503, 513, x1: Option<Text<String>>, x2: Option<JSON<Doc>>, x3: Option<URLEncoded<Form>>);
    arity!("/m4/:a", "/n4/:a/:b", 504, 514, x1: Option<Text<String>>, x2: Option<JSON<Doc>>, x3: Option<URLEncoded<Form>>, x4: Option<Text<String>>);
    hook::assemble(None, items)
}

/// one or two integer params in front of k = 0..4 optional items; the params must reach the handler each from its own segment
fn gen_arity_case(rng: &mut Rng) -> Case {
    let k = rng.below(5);
    let a = rng.below(1000) as u32;
    let b = -(rng.below(1000) as i64) - 1000; // never equal to a, and negative: only the i64 position takes it
    if rng.bool() {
        Case { method: "GET", target: format!("/m{k}/{a}"), headers: vec![], body: vec![], expect: Some(Some((500 + k as u32, vec![a.to_string()]))), class: format!("arity:1+{k}") }
    } else if rng.chance(1, 4) {
        // the second segment is no integer: the handler must not run, whatever the first one is
        Case { method: "GET", target: format!("/n{k}/{a}/{b}x"), headers: vec![], body: vec![], expect: None, class: format!("arity:2+{k}:bad-second") }
    } else {
        Case { method: "GET", target: format!("/n{k}/{a}/{b}"), headers: vec![], body: vec![], expect: Some(Some((510 + k as u32, vec![a.to_string(), b.to_string()]))), class: format!("arity:2+{k}") }
    }
}

/* ------------------------------ inputs ------------------------------ */

/// (raw segment as sent, class)
fn gen_int_segment(rng: &mut Rng, ty: &str) -> (String, &'static str) {
    let (min, max): (i128, i128) = match ty {
        "u8" => (0, u8::MAX as i128), "u16" => (0, u16::MAX as i128), "u32" => (0, u32::MAX as i128), "u64" | "usize" => (0, u64::MAX as i128),
        "i8" => (i8::MIN as i128, i8::MAX as i128), "i16" => (i16::MIN as i128, i16::MAX as i128), "i32" => (i32::MIN as i128, i32::MAX as i128), _ => (i64::MIN as i128, i64::MAX as i128),
    };
    match rng.below(20) {
        0 => (max.to_string(), "max"),
        1 => ((max + 1).to_string(), "max+1"),
        2 => (min.to_string(), "min"),
        3 => ((min - 1).to_string(), "min-1"),
        4 => ((max - 1).to_string(), "max-1"),
        5 => (format!("{}abc", rng.below(100)), "digits+garbage"),
        6 => (format!("+{}", rng.below(100)), "plus-sign"),
        7 => ("-0".into(), "minus-zero"),
        8 => (format!("00{}", rng.below(100)), "leading-zeros"),
        9 => ("18446744073709551617".into(), "2^64+1"),
        10 => ("18446744073709551615".into(), "2^64-1"),
        11 => ("123456789012345678901234567890".into(), "30-digits"),
        12 => (format!("%3{}%3{}", rng.below(10), rng.below(10)), "percent-encoded-digits"),
        13 => ("%FF".into(), "non-utf8"),
        14 => ("1%2F2".into(), "encoded-slash"),
        15 => ("abc".into(), "letters"),
        16 => (format!("{}.5", rng.below(100)), "decimal-point"),
        17 => (format!("-{}", rng.below(200)), "negative"),
        18 => (format!("{} ", rng.below(9)).replace(' ', "%20"), "trailing-space"),
        _ => ((rng.u64() as i128 % (max - min + 1) + min).to_string(), "in-range"),
    }
}

fn gen_str_segment(rng: &mut Rng) -> (String, &'static str) {
    match rng.below(8) {
        0 => ("hello".into(), "plain"),
        1 => ("a%2Fb".into(), "encoded-slash"),
        2 => ("%E7%8B%BC".into(), "encoded-utf8"),
        3 => ("%FF%FE".into(), "non-utf8"),
        4 => ("a%20b%25".into(), "encoded-ascii"),
        5 => ("x.y-z_~".into(), "unreserved"),
        6 => ("%41".into(), "single-escape"),
        _ => (rng.string_over(b"abcXYZ019", 1, 12), "plain"),
    }
}

#[derive(Clone, Debug)]
struct Case {
    method: &'static str,
    target: String,
    headers: Vec<(String, String)>,
    body: Vec<u8>,
    /// handler id that may run and the values it must see; None = the handler must not run (error response); Some(None) = not judged
    expect: Option<Option<(u32, Vec<String>)>>,
    class: String,
}

fn canonical_int(s: &str) -> bool {
    let d = s.strip_prefix('-').unwrap_or(s);
    !d.is_empty() && d.bytes().all(|b| b.is_ascii_digit()) && (d == "0" || !d.starts_with('0')) && s != "-0"
}

fn decoded(seg: &str) -> Option<String> {
    String::from_utf8(percent_decode_strict(seg.as_bytes()).ok()?).ok()
}

fn gen_param_case(rng: &mut Rng) -> Case {
    let form = rng.below(4); // 0: bare, 1: 1-tuple, 2: (T, String), 3: (String, T)
    if rng.chance(1, 5) {
        // string-like types
        let (seg, cls) = gen_str_segment(rng);
        let dec = decoded(&seg);
        let (route, id): (&str, u32) = *rng.pick(&[("/t/String", 11), ("/t/Cow", 12), ("/t/str", 13)]);
        let expect = match (&dec, id) {
            (None, _) => None,
            // `&str` cannot hold a decoded value: documented to be refused when the segment is percent-encoded
            (Some(d), 13) if *d != seg => { let _ = d; None }
            (Some(d), _) => Some(Some((id, vec![d.clone()]))),
        };
        return Case { method: "GET", target: format!("{route}/{seg}"), headers: vec![], body: vec![], expect, class: format!("str:{}:{cls}", route.trim_start_matches("/t/")) };
    }
    let ty = *rng.pick(&INT_TYPES);
    let tid = INT_TYPES.iter().position(|t| *t == ty).unwrap() as u32 + 1;
    let (seg, cls) = gen_int_segment(rng, ty);
    let dec = decoded(&seg);
    let other = rng.pick(&["x", "a%2Fb", "77", "%E7%8B%BC"]).to_string();
    let other_dec = decoded(&other).unwrap();
    let (target, id, wrap): (String, u32, Box<dyn Fn(String) -> Vec<String>>) = match form {
        0 => (format!("/t/{ty}/{seg}"), tid, Box::new(|v| vec![v])),
        1 => (format!("/tt/{ty}/{seg}"), tid + 100, Box::new(|v| vec![v])),
        2 => { let o = other_dec.clone(); (format!("/t2/{ty}/{seg}/{other}"), tid + 200, Box::new(move |v| vec![v, o.clone()])) }
        _ => { let o = other_dec.clone(); (format!("/t3/{ty}/{other}/{seg}"), tid + 300, Box::new(move |v| vec![o.clone(), v])) }
    };
    let expect = match dec {
        None => None,
        Some(d) => match parse_ref(ty, &d) {
            // canonical in-range form: must be delivered; forms the statement is silent on (+5, -0, leading zeros): not judged unless wrong value
            Some(v) if canonical_int(&d) => Some(Some((id, wrap(v)))),
            Some(v) => { let _ = v; Some(None) }
            None if d == "-0" => Some(None),
            None => None,
        },
    };
    Case { method: "GET", target, headers: vec![], body: vec![], expect, class: format!("int:{ty}:{cls}:f{form}") }
}

fn enc_form(a: &str, s: &str, rng: &mut Rng) -> String {
    let mut pairs = vec![format!("a={a}"), format!("s={}", percent_encode_all(s.as_bytes()))];
    if rng.bool() { pairs.reverse() }
    if rng.chance(1, 4) { pairs.push("unknown=1".into()) }
    pairs.join("&")
}

fn gen_body_case(rng: &mut Rng) -> Case {
    let kind = *rng.pick(&["query", "json", "form", "multipart", "upload", "text", "o-json", "o-form", "o-text", "combo", "combo2"]);
    let s_val = match rng.below(4) { 0 => String::new(), 1 => "hello world & more=1".into(), 2 => "狼 ohkami".into(), _ => rng.string_over(b"abc019", 1, 10) };
    let a_ok = rng.chance(3, 4);
    let a_val = if a_ok { rng.below(100000).to_string() } else { rng.pick(&["abc", "-1", "4294967296", "1.5", ""]).to_string() };
    // "truncated": the header value is a proper prefix of the extractor's media type ("application/jso", "application", "text");
    // "empty": the header is there with an empty value. Neither names the extractor's type: the gate stays shut.
    let ct_class = *rng.pick_weighted(&[(5, "exact"), (2, "charset"), (2, "mismatch"), (2, "missing"), (1, "prefix-sharing"), (2, "truncated"), (1, "empty")]);
    let cut = rng.u64() as usize;
    let ct = |base: &str| -> Option<String> {
        match ct_class {
            "exact" => Some(base.to_string()),
            "charset" => Some(format!("{base}; charset=utf-8")),
            "mismatch" => Some(if base == "text/plain" { "application/json".into() } else { "text/plain".into() }),
            "prefix-sharing" => Some(format!("{base}x")),
            "truncated" => Some(base[..1 + cut % (base.len() - 1)].to_string()),
            "empty" => Some(String::new()),
            _ => None,
        }
    };
    let gate_open = matches!(ct_class, "exact" | "charset");
    let judged = ct_class != "prefix-sharing";
    let mk = |method: &'static str, target: String, ctype: Option<String>, body: Vec<u8>, expect: Option<Option<(u32, Vec<String>)>>, class: String| {
        let mut headers = vec![];
        if let Some(c) = ctype { headers.push(("Content-Type".to_string(), c)) }
        if !body.is_empty() { headers.push(("Content-Length".to_string(), body.len().to_string())) }
        Case { method, target, headers, body, expect: if judged { expect } else { Some(None) }, class }
    };
    let form_expect = |id: u32| -> Option<Option<(u32, Vec<String>)>> { if a_ok { Some(Some((id, vec![a_val.clone(), s_val.clone()]))) } else { None } };
    match kind {
        "query" => {
            let q = enc_form(&a_val, &s_val, rng);
            Case { method: "GET", target: format!("/x/query?{q}"), headers: vec![], body: vec![], expect: form_expect(20), class: format!("query:{}", if a_ok { "valid" } else { "invalid" }) }
        }
        "json" | "o-json" | "combo" => {
            let valid = rng.chance(3, 4);
            let doc = if valid {
                json!({"n": (rng.u64() as i64) >> rng.below(60), "name": s_val, "tags": if rng.bool() { json!(["x", "y z"]) } else { json!([]) }, "opt": *rng.pick(&[json!(null), json!(true), json!(false)])})
            } else {
                rng.pick(&[json!({"n": "notanumber", "name": "x"}), json!({"name": "x"}), json!([1, 2]), json!({"n": 1.5, "name": "x", "opt": null}), json!({"n": 1, "name": 5, "opt": true})]).clone()
            };
            let mut body = serde_json::to_vec(&doc).unwrap();
            if !valid && rng.chance(1, 3) { body = b"{\"n\": 1, \"name\": \"x\", \"opt\": null}trailing".to_vec() }
            if !valid && rng.chance(1, 5) { body = b"{\"n\": 1, \"name\": ".to_vec() }
            // reference: serde_json itself on the same bytes
            let parsed: Option<Doc> = serde_json::from_slice(&body).ok();
            match kind {
                "json" => {
                    let exp = if gate_open { parsed.map(|d| Some((21, show_doc(&d)))) } else { None };
                    mk("POST", "/x/json".into(), ct("application/json"), body, exp, format!("json:{ct_class}:{}", if valid { "valid" } else { "invalid" }))
                }
                "o-json" => {
                    // absent item (no matching Content-Type / no body) -> None; present but undecodable -> error
                    let body = if rng.chance(1, 6) { vec![] } else { body };
                    let exp = if gate_open && !body.is_empty() { serde_json::from_slice::<Doc>(&body).ok().map(|d| Some((31, show_doc(&d)))) } else { Some(Some((31, vec!["<none>".to_string()]))) };
                    mk("POST", "/o/json".into(), ct("application/json"), body, exp, format!("o-json:{ct_class}:{}", if valid { "valid" } else { "invalid" }))
                }
                _ => {
                    let (seg, _) = gen_int_segment(rng, "u32");
                    let idv = decoded(&seg).and_then(|d| if canonical_int(&d) { parse_ref("u32", &d) } else { None });
                    let q = enc_form(&a_val, &s_val, rng);
                    let exp = match (idv, a_ok, gate_open, parsed) {
                        (Some(id), true, true, Some(d)) => Some(Some((40, [vec![id], vec![a_val.clone(), s_val.clone()], show_doc(&d)].concat()))),
                        _ => None,
                    };
                    // silent integer forms make the whole case unjudged
                    let silent = decoded(&seg).map(|d| !canonical_int(&d) && (parse_ref("u32", &d).is_some() || d == "-0")).unwrap_or(false);
                    mk("POST", format!("/c/{seg}?{q}"), ct("application/json"), body, if silent { Some(None) } else { exp }, format!("combo:{ct_class}"))
                }
            }
        }
        "form" | "o-form" => {
            let body = enc_form(&a_val, &s_val, rng).into_bytes();
            if kind == "form" {
                let exp = if gate_open { form_expect(22) } else { None };
                mk("POST", "/x/form".into(), ct("application/x-www-form-urlencoded"), body, exp, format!("form:{ct_class}:{}", if a_ok { "valid" } else { "invalid" }))
            } else {
                let exp = if gate_open { form_expect(32) } else { Some(Some((32, vec!["<none>".to_string()]))) };
                mk("POST", "/o/form".into(), ct("application/x-www-form-urlencoded"), body, exp, format!("o-form:{ct_class}:{}", if a_ok { "valid" } else { "invalid" }))
            }
        }
        "multipart" => {
            let b = "XbOuNdArY7";
            // invalid = the required field `a` is missing
            let body = if a_ok {
                format!("--{b}\r\nContent-Disposition: form-data; name=\"a\"\r\n\r\n{a_val}\r\n--{b}\r\nContent-Disposition: form-data; name=\"s\"\r\n\r\n{s_val}\r\n--{b}--\r\n").into_bytes()
            } else {
                format!("--{b}\r\nContent-Disposition: form-data; name=\"s\"\r\n\r\n{s_val}\r\n--{b}--\r\n").into_bytes()
            };
            let base = format!("multipart/form-data; boundary={b}");
            let ctv = match ct_class { "exact" | "charset" => Some(base), "mismatch" => Some("text/plain".into()), "prefix-sharing" => Some(format!("multipart/form-datax; boundary={b}")), "truncated" => Some("multipart/form-data"[..1 + cut % 18].to_string()), "empty" => Some(String::new()), _ => None };
            let mut headers = vec![];
            if let Some(c) = ctv { headers.push(("Content-Type".to_string(), c)) }
            headers.push(("Content-Length".to_string(), body.len().to_string()));
            let exp = if gate_open { form_expect(23) } else { None };
            Case { method: "POST", target: "/x/multipart".into(), headers, body, expect: if judged { exp } else { Some(None) }, class: format!("multipart:{ct_class}:{}", if a_ok { "valid" } else { "invalid" }) }
        }
        "upload" => {
            use crate::engines::c10::{encode, EncodeOpts, FormPart};
            let b = "XbOuNdArY7";
            let mut parts = vec![FormPart::Text { name: "title".into(), value: s_val.clone() }];
            let file = |rng: &mut Rng, name: &str| -> (FormPart, String) {
                let filename = rng.pick(&["a.png", ".gitkeep", "__init__.py", "notes.txt"]).to_string();
                let mime = rng.pick(&["image/png", "text/plain", "application/octet-stream"]).to_string();
                let cs: [&[u8]; 4] = [b"", b"", b"abc", b"\x00\xff\r\n--"];
                let content = rng.pick(&cs).to_vec();
                let shown = format!("{filename}|{mime}|{}", crate::rng::hex(&content));
                (FormPart::File { name: name.into(), filename, mime, content }, shown)
            };
            let doc_shown = match rng.below(4) {
                0 => "<none>".to_string(),
                // what a browser sends for a file input nobody used
                1 => { parts.push(FormPart::File { name: "doc".into(), filename: String::new(), mime: "application/octet-stream".into(), content: vec![] }); "<none>".to_string() }
                _ => { let (p, sh) = file(rng, "doc"); parts.push(p); sh }
            };
            let mut pics_shown = vec![];
            for _ in 0..rng.below(3) { let (p, sh) = file(rng, "pics"); parts.push(p); pics_shown.push(sh) }
            let body = encode(&parts, &EncodeOpts { boundary: b.into(), extra_headers: false, extra_at: 0, lower_header_names: false, content_type_first: false, text_ctypes: vec![] });
            let base = format!("multipart/form-data; boundary={b}");
            let ctv = match ct_class { "exact" | "charset" => Some(base), "mismatch" => Some("text/plain".into()), "prefix-sharing" => Some(format!("multipart/form-datax; boundary={b}")), "truncated" => Some("multipart/form-data"[..1 + cut % 18].to_string()), "empty" => Some(String::new()), _ => None };
            let mut headers = vec![];
            if let Some(c) = ctv { headers.push(("Content-Type".to_string(), c)) }
            headers.push(("Content-Length".to_string(), body.len().to_string()));
            let exp = if gate_open { Some(Some((27, vec![s_val.clone(), doc_shown, pics_shown.join(",")]))) } else { None };
            Case { method: "POST", target: "/x/upload".into(), headers, body, expect: if judged { exp } else { Some(None) }, class: format!("upload:{ct_class}") }
        }
        "text" | "o-text" => {
            let valid = rng.chance(3, 4);
            let body: Vec<u8> = if valid { s_val.clone().into_bytes() } else { vec![b'a', 0xff, b'b'] };
            let body = if body.is_empty() { b"x".to_vec() } else { body };
            let text = String::from_utf8(body.clone()).ok();
            if kind == "text" {
                let exp = if gate_open { text.map(|t| Some((24, vec![t]))) } else { None };
                mk("POST", "/x/text".into(), ct("text/plain"), body, exp, format!("text:{ct_class}:{}", if valid { "valid" } else { "invalid" }))
            } else {
                let exp = if gate_open { text.map(|t| Some((34, vec![t]))) } else { Some(Some((34, vec!["<none>".to_string()]))) };
                mk("POST", "/o/text".into(), ct("text/plain"), body, exp, format!("o-text:{ct_class}:{}", if valid { "valid" } else { "invalid" }))
            }
        }
        _ => {
            // combo2: (i16, String) + Query + Option<Text>
            let (seg, _) = gen_int_segment(rng, "i16");
            let d = decoded(&seg);
            let idv = d.as_ref().and_then(|d| if canonical_int(d) { parse_ref("i16", d) } else { None });
            let silent = d.as_ref().map(|d| !canonical_int(d) && (parse_ref("i16", d).is_some() || d == "-0")).unwrap_or(false);
            let q = enc_form(&a_val, &s_val, rng);
            let with_text = rng.bool();
            let body: Vec<u8> = if with_text { b"note".to_vec() } else { vec![] };
            let exp = match (idv, a_ok) {
                (Some(id), true) => Some(Some((41, [vec![id, "b%".to_string()], vec![a_val.clone(), s_val.clone()], vec![if with_text && gate_open { "note".to_string() } else { "<none>".to_string() }]].concat()))),
                _ => None,
            };
            mk("POST", format!("/c2/{seg}/b%25?{q}"), if with_text { ct("text/plain") } else { None }, body, if silent { Some(None) } else { exp }, format!("combo2:{ct_class}"))
        }
    }
}

pub fn run(args: &Args, rep: &mut Report) {
    let small = args.flag("small").is_some();
    let router = hook::Router::new(app());
    if args.shard == 0 && args.start == 0 {
        for (target, exp, class) in [("/t/u32/12abc", None, "witness:digits+garbage"), ("/t/u64/18446744073709551617", None, "witness:2^64+1"), ("/t/u8/255", Some(Some((1u32, vec!["255".to_string()]))), "witness:max")] {
            check(rep, u64::MAX, &router, &Case { method: "GET", target: target.into(), headers: vec![], body: vec![], expect: exp, class: class.into() });
        }
    }
    let mut case = args.shard;
    while case < args.budget {
        if case >= args.start {
            rep.begin(case);
            let mut rng = Rng::derive(args.seed, 7, case);
            let n = if small { 6 } else { 40 };
            for _ in 0..n {
                let c = if rng.chance(1, 8) { gen_arity_case(&mut rng) } else if rng.chance(3, 5) { gen_param_case(&mut rng) } else { gen_body_case(&mut rng) };
                check(rep, case, &router, &c);
            }
            rep.end(case);
        }
        case += args.nshards;
    }
}

fn check(rep: &mut Report, case: u64, router: &hook::Router, c: &Case) {
    rep.eval();
    rep.count(&format!("kind:{}", c.class.split(':').next().unwrap()));
    rep.distinct(&c.class);
    let hs: Vec<(&str, &str)> = c.headers.iter().map(|(k, v)| (k.as_str(), v.as_str())).collect();
    let bytes = web::build_request(c.method, &c.target, &hs, &c.body);
    trace::clear();
    let step = web::oneshot(router, &bytes);
    let evs = trace::take();
    let ran: Vec<(u32, Vec<String>)> = evs.iter().filter_map(|e| if let Ev::Handler(i, v) = e { Some((*i, v.clone())) } else { None }).collect();
    let cj = |extra: serde_json::Value| json!({"case_index": case, "class": c.class, "request": crate::rng::show(&bytes[..bytes.len().min(600)]), "expected": format!("{:?}", c.expect), "handler_events": format!("{ran:?}"), "detail": extra});
    let status = match &step {
        Step::Handled(b) | Step::Refused(b) => parse_response(b, false).map(|r| r.status).unwrap_or(0),
        Step::Panicked(p) => {
            rep.violation(&format!("C07/panic@{}", crate::report::panic_site(p)), &format!("{} {} panicked: {p}", c.method, c.target), cj(json!(null)));
            return;
        }
        other => {
            rep.violation(&format!("C07/{}", other.kind()), &format!("request ended as {}", other.kind()), cj(json!(null)));
            return;
        }
    };
    match &c.expect {
        None => {
            // a declared item cannot be produced: the handler must not run, error response
            if !ran.is_empty() {
                rep.violation(&format!("C07/handler-ran-on-bad-item:{}", sigclass(&c.class)), &format!("{} {}: handler ran with {:?} although an item cannot be produced", c.method, c.target, ran), cj(json!(null)));
            } else if status < 400 {
                rep.violation("C07/no-error-status", &format!("{} {}: handler did not run but status is {status}", c.method, c.target), cj(json!(null)));
            } else {
                rep.count("refused_as_expected");
            }
        }
        Some(None) => {
            rep.count("not_judged_silent_forms");
            // if accepted, the integer must at least be the denoted one: checked for the plain int routes
        }
        Some(Some((id, vals))) => {
            if ran.len() != 1 || ran[0].0 != *id || &ran[0].1 != vals {
                let kind = if ran.is_empty() { "valid-item-refused" } else { "wrong-value" };
                rep.violation(&format!("C07/{kind}:{}", sigclass(&c.class)), &format!("{} {}: handler events {:?}, expected h{id} with {:?} (status {status})", c.method, c.target, ran, vals), cj(json!({"status": status})));
            } else {
                rep.count("delivered_exactly");
                if rep.want_sample() && c.class.starts_with("combo") {
                    rep.sample(json!({"request": crate::rng::show(&bytes[..bytes.len().min(300)]), "handler_saw": vals}));
                }
            }
        }
    }
}

/// class without the per-type detail, for signatures
fn sigclass(class: &str) -> String {
    let p: Vec<&str> = class.split(':').collect();
    match p[0] {
        "int" => format!("int:{}", p.get(2).unwrap_or(&"")),
        "str" => format!("str:{}:{}", p.get(1).unwrap_or(&""), p.get(2).unwrap_or(&"")),
        _ => class.to_string(),
    }
}
