//! C08 – totality and memory safety of the network-facing decoders: every (decoder, target type, input)
//! call must return Ok or Err – no panic, abort, hang – every yielded string must be UTF-8 and every
//! borrowed slice must lie inside the input.

use crate::engines::c10::{encode, EncodeOpts, FormPart};
use crate::report::{catch, Args, Report};
use crate::rng::Rng;
use ohkami::format::File;
use ohkami::FromParam;
use serde::Deserialize;
use serde_json::json;
use std::borrow::Cow;
use std::collections::{BTreeMap, HashMap};
use std::sync::atomic::{AtomicU64, Ordering};

/* ------------------------------ inspection of decoded values ------------------------------ */

pub trait Inspect {
    /// push a description of every problem found (invalid UTF-8, borrowed slice outside the input)
    fn vh_inspect(&self, input: &[u8], out: &mut Vec<String>);
}
fn check_str(s: &str, borrowed: bool, input: &[u8], out: &mut Vec<String>) {
    if std::str::from_utf8(s.as_bytes()).is_err() {
        out.push(format!("string that is not UTF-8: {}", crate::rng::show(s.as_bytes())));
    }
    if borrowed && !s.is_empty() {
        contained(s.as_bytes(), input, out);
    }
}
fn contained(b: &[u8], input: &[u8], out: &mut Vec<String>) {
    let (p, q) = (b.as_ptr() as usize, input.as_ptr() as usize);
    if !(p >= q && p + b.len() <= q + input.len()) {
        out.push(format!("borrowed slice of {} bytes lies outside the input", b.len()));
    }
}
macro_rules! inspect_noop { ($($t:ty),*) => { $( impl Inspect for $t { fn vh_inspect(&self, _: &[u8], _: &mut Vec<String>) {} } )* } }
inspect_noop!(bool, i8, i16, i32, i64, u8, u16, u32, u64, usize, isize, f32, f64, char, ());
impl Inspect for String { fn vh_inspect(&self, i: &[u8], o: &mut Vec<String>) { check_str(self, false, i, o) } }
impl Inspect for &str { fn vh_inspect(&self, i: &[u8], o: &mut Vec<String>) { check_str(self, true, i, o) } }
impl Inspect for Cow<'_, str> { fn vh_inspect(&self, i: &[u8], o: &mut Vec<String>) { check_str(self, matches!(self, Cow::Borrowed(_)), i, o) } }
impl<T: Inspect> Inspect for Option<T> { fn vh_inspect(&self, i: &[u8], o: &mut Vec<String>) { if let Some(x) = self { x.vh_inspect(i, o) } } }
impl<T: Inspect> Inspect for Vec<T> { fn vh_inspect(&self, i: &[u8], o: &mut Vec<String>) { for x in self { x.vh_inspect(i, o) } } }
impl<A: Inspect, B: Inspect> Inspect for (A, B) { fn vh_inspect(&self, i: &[u8], o: &mut Vec<String>) { self.0.vh_inspect(i, o); self.1.vh_inspect(i, o) } }
impl<V: Inspect> Inspect for HashMap<String, V> { fn vh_inspect(&self, i: &[u8], o: &mut Vec<String>) { for (k, v) in self { k.vh_inspect(i, o); v.vh_inspect(i, o) } } }
impl<V: Inspect> Inspect for BTreeMap<String, V> { fn vh_inspect(&self, i: &[u8], o: &mut Vec<String>) { for (k, v) in self { k.vh_inspect(i, o); v.vh_inspect(i, o) } } }
impl Inspect for File<'_> {
    fn vh_inspect(&self, i: &[u8], o: &mut Vec<String>) {
        check_str(self.filename, true, i, o);
        check_str(self.mimetype, true, i, o);
        if !self.content.is_empty() { contained(self.content, i, o) }
    }
}

#[derive(Deserialize, Debug)]
pub struct F<T> { pub x: T }
impl<T: Inspect> Inspect for F<T> { fn vh_inspect(&self, i: &[u8], o: &mut Vec<String>) { self.x.vh_inspect(i, o) } }
#[derive(Deserialize, Debug)]
pub struct FB<'a> { #[serde(borrow)] pub x: &'a str, #[serde(borrow)] pub y: Cow<'a, str> }
impl Inspect for FB<'_> { fn vh_inspect(&self, i: &[u8], o: &mut Vec<String>) { self.x.vh_inspect(i, o); self.y.vh_inspect(i, o) } }
#[derive(Deserialize, Debug)]
pub enum Color { Red, Green, #[serde(rename = "dark blue")] DarkBlue }
impl Inspect for Color { fn vh_inspect(&self, _: &[u8], _: &mut Vec<String>) {} }
#[derive(Deserialize, Debug)]
pub enum Data { N(u32), T(u8, u8), S { a: u8 }, U }
impl Inspect for Data { fn vh_inspect(&self, _: &[u8], _: &mut Vec<String>) {} }
#[derive(Deserialize, Debug)]
pub struct Meters(pub u32);
impl Inspect for Meters { fn vh_inspect(&self, _: &[u8], _: &mut Vec<String>) {} }
#[derive(Deserialize, Debug)]
pub struct Unit;
impl Inspect for Unit { fn vh_inspect(&self, _: &[u8], _: &mut Vec<String>) {} }
#[derive(Deserialize, Debug)]
pub struct Known { pub alpha: String, pub beta: u32, pub gamma: Option<String>, #[serde(default)] pub list: Vec<String> }
impl Inspect for Known { fn vh_inspect(&self, i: &[u8], o: &mut Vec<String>) { self.alpha.vh_inspect(i, o); self.gamma.vh_inspect(i, o); self.list.vh_inspect(i, o) } }
#[derive(Deserialize, Debug)]
pub struct MA<'a> { pub title: &'a str, #[serde(borrow)] pub doc: File<'a> }
impl Inspect for MA<'_> { fn vh_inspect(&self, i: &[u8], o: &mut Vec<String>) { self.title.vh_inspect(i, o); self.doc.vh_inspect(i, o) } }
#[derive(Deserialize, Debug)]
pub struct MB<'a> { pub title: String, #[serde(borrow)] pub doc: Option<File<'a>>, #[serde(borrow, default)] pub pics: Vec<File<'a>>, pub note: Option<&'a str> }
impl Inspect for MB<'_> { fn vh_inspect(&self, i: &[u8], o: &mut Vec<String>) { self.title.vh_inspect(i, o); self.doc.vh_inspect(i, o); self.pics.vh_inspect(i, o); self.note.vh_inspect(i, o) } }

/* ------------------------------ the decoder x type table ------------------------------ */

#[derive(Debug)]
pub enum Out { Ok, Err, Problem(Vec<String>) }

fn judge<T: Inspect, E>(r: Result<T, E>, input: &[u8]) -> Out {
    match r {
        Ok(v) => { let mut p = vec![]; v.vh_inspect(input, &mut p); if p.is_empty() { Out::Ok } else { Out::Problem(p) } }
        Err(_) => Out::Err,
    }
}

pub type Call = fn(&[u8]) -> Out;

macro_rules! table {
    ($name:ident, $dec:expr; $( $label:literal => $t:ty ),* $(,)?) => {
        pub fn $name() -> Vec<(&'static str, Call)> {
            vec![ $( ($label, (|i: &[u8]| judge::<$t, _>($dec(i), i)) as Call) ),* ]
        }
    };
}
fn ue<'a, T: Deserialize<'a>>(i: &'a [u8]) -> Result<T, ohkami_lib::serde_urlencoded::Error> { ohkami_lib::serde_urlencoded::from_bytes(i) }
fn ck<'a, T: Deserialize<'a>>(i: &'a [u8]) -> Result<T, String> {
    match std::str::from_utf8(i) { Ok(s) => ohkami_lib::serde_cookie::from_str(s).map_err(|e| e.to_string()), Err(_) => Err("not utf-8: a header value never is".into()) }
}
fn mp<'a, T: Deserialize<'a>>(i: &'a [u8]) -> Result<T, ohkami_lib::serde_multipart::Error> { ohkami_lib::serde_multipart::from_bytes(i) }

macro_rules! scalar_targets {
    ($name:ident, $dec:expr) => {
        table!($name, $dec;
            "F<bool>" => F<bool>, "F<i8>" => F<i8>, "F<i16>" => F<i16>, "F<i32>" => F<i32>, "F<i64>" => F<i64>, "F<u8>" => F<u8>, "F<u16>" => F<u16>, "F<u32>" => F<u32>, "F<u64>" => F<u64>,
            "F<f32>" => F<f32>, "F<f64>" => F<f64>, "F<char>" => F<char>, "F<String>" => F<String>, "FB{&str,Cow}" => FB, "F<Option<String>>" => F<Option<String>>, "F<Option<u32>>" => F<Option<u32>>,
            "F<()>" => F<()>, "F<Unit>" => F<Unit>, "F<Color>" => F<Color>, "F<Data>" => F<Data>, "F<Meters>" => F<Meters>, "F<Vec<String>>" => F<Vec<String>>, "F<Vec<u32>>" => F<Vec<u32>>,
            "F<(u8,String)>" => F<(u8, String)>, "F<Vec<u8>>" => F<Vec<u8>>, "HashMap<String,String>" => HashMap<String, String>, "BTreeMap<String,u32>" => BTreeMap<String, u32>, "Known" => Known,
            "F<F<u8>>" => F<F<u8>>, "top:String" => String, "top:u32" => u32, "top:Vec<String>" => Vec<String>, "top:(String,String)" => (String, String), "top:Option<F<String>>" => Option<F<String>>,
            "top:Color" => Color, "top:()" => (), "top:bool" => bool, "top:char" => char, "top:f64" => f64,
        );
    };
}
scalar_targets!(urlencoded_table, ue);
scalar_targets!(cookie_table, ck);
table!(multipart_table, mp;
    "MA{&str,File}" => MA, "MB{String,Option<File>,Vec<File>,Option<&str>}" => MB, "HashMap<String,String>" => HashMap<String, String>, "F<String>" => F<String>, "F<Option<String>>" => F<Option<String>>,
    "F<File>" => F<File>, "F<Vec<File>>" => F<Vec<File>>, "F<Option<File>>" => F<Option<File>>, "F<u32>" => F<u32>, "F<Vec<String>>" => F<Vec<String>>, "top:File" => File, "top:String" => String,
    "top:Vec<File>" => Vec<File>, "F<Color>" => F<Color>, "F<bool>" => F<bool>, "F<(File,File)>" => F<(File, File)>,
);

fn other_table() -> Vec<(&'static str, Call)> {
    vec![
        ("percent_decode", (|i: &[u8]| { let d = ohkami_lib::percent_decode(i); if let Cow::Borrowed(b) = &d { let mut o = vec![]; if !b.is_empty() { contained(b, i, &mut o) } if !o.is_empty() { return Out::Problem(o) } } Out::Ok }) as Call),
        ("percent_decode_utf8", (|i: &[u8]| judge(ohkami_lib::percent_decode_utf8(i), i)) as Call),
        ("iter_cookies", (|i: &[u8]| match std::str::from_utf8(i) { Ok(s) => { let v: Vec<(&str, &str)> = ohkami::util::iter_cookies(s).collect(); let mut o = vec![]; for (a, b) in v { check_str(a, true, i, &mut o); check_str(b, true, i, &mut o) } if o.is_empty() { Out::Ok } else { Out::Problem(o) } } Err(_) => Out::Err }) as Call),
        // the request target as it comes off the socket: whatever is admitted must be readable through every view of the path
        // and of the query (raw `Deref`/`AsRef<str>`, percent-decoded `str()`, `Debug`, the query iterator) without a panic
        ("request-target", (|i: &[u8]| {
            thread_local! { static ROUTER: &'static ohkami::__verif__::Router = Box::leak(Box::new(ohkami::__verif__::Router::new(ohkami::Ohkami::new(())))); }
            let mut bytes = b"GET /".to_vec();
            bytes.extend_from_slice(i);
            bytes.extend_from_slice(b" HTTP/1.1\r\nHost: t\r\n\r\n");
            let mut snap = None;
            let s = ROUTER.with(|r| crate::web::session(r, vec![crate::memconn::Seg::Data(bytes)], crate::memconn::End::Hang, 1, |req| snap = Some(crate::engines::c02::snapshot(req, &[]))));
            if let Some(crate::web::Step::Panicked(p)) = s.steps.first() { return Out::Problem(vec![format!("panic: {p}")]) }
            match snap {
                None => Out::Err,
                Some(sn) => {
                    let mut o = vec![];
                    for (what, e) in [("path.str()", sn.path_str.as_ref().err()), ("&*path", sn.path_deref.as_ref().err()), ("query.iter()", sn.query.as_ref().err()), ("Debug", sn.debug.as_ref().err())] {
                        if let Some(p) = e { o.push(format!("panic: {what}: {p}")) }
                    }
                    if o.is_empty() { Out::Ok } else { Out::Problem(o) }
                }
            }
        }) as Call),
        ("param:String", (|i: &[u8]| judge(<String as FromParam>::from_raw_param(i), i)) as Call),
        ("param:Cow<str>", (|i: &[u8]| judge(<Cow<'_, str> as FromParam>::from_raw_param(i), i)) as Call),
        ("param:&str", (|i: &[u8]| judge(<&str as FromParam>::from_raw_param(i), i)) as Call),
        ("param:u8", (|i: &[u8]| judge(<u8 as FromParam>::from_raw_param(i), i)) as Call), ("param:u16", (|i: &[u8]| judge(<u16 as FromParam>::from_raw_param(i), i)) as Call),
        ("param:u32", (|i: &[u8]| judge(<u32 as FromParam>::from_raw_param(i), i)) as Call), ("param:u64", (|i: &[u8]| judge(<u64 as FromParam>::from_raw_param(i), i)) as Call),
        ("param:usize", (|i: &[u8]| judge(<usize as FromParam>::from_raw_param(i), i)) as Call), ("param:i8", (|i: &[u8]| judge(<i8 as FromParam>::from_raw_param(i), i)) as Call),
        ("param:i16", (|i: &[u8]| judge(<i16 as FromParam>::from_raw_param(i), i)) as Call), ("param:i32", (|i: &[u8]| judge(<i32 as FromParam>::from_raw_param(i), i)) as Call),
        ("param:i64", (|i: &[u8]| judge(<i64 as FromParam>::from_raw_param(i), i)) as Call), ("param:isize", (|i: &[u8]| judge(<isize as FromParam>::from_raw_param(i), i)) as Call),
        ("set-cookie-accessors", (|i: &[u8]| {
            // hostile directive strings through the public builder, then the crate's own Set-Cookie parser
            let s = String::from_utf8_lossy(i).replace(['\r', '\n'], " ");
            let (a, b) = s.split_at(s.len() / 2 - (0..4).find(|k| s.is_char_boundary(s.len() / 2 - k.min(&(s.len() / 2)))).unwrap_or(0).min(s.len() / 2));
            let (a, b) = (a.to_string(), b.to_string());
            let mut res = ohkami::Response::OK();
            res.headers.set().SetCookie("k", a.clone(), |d| d.Path(b.clone()).Domain(a.clone())).SetCookie("j", b.clone(), |d| d.Expires(a.clone()).MaxAge(7));
            let mut o = vec![];
            for c in res.headers.SetCookie() {
                let (n, v) = c.Cookie();
                check_str(n, false, i, &mut o);
                check_str(v, false, i, &mut o);
                for x in [c.Path(), c.Domain(), c.Expires()].into_iter().flatten() { check_str(x, false, i, &mut o) }
                let _ = (c.MaxAge(), c.Secure(), c.HttpOnly(), c.SameSite());
            }
            if o.is_empty() { Out::Ok } else { Out::Problem(o) }
        }) as Call),
    ]
}

/* ------------------------------ inputs ------------------------------ */

fn mutate_text(rng: &mut Rng, valid: &[u8], sep: &[u8]) -> Vec<u8> {
    let mut v = valid.to_vec();
    match rng.below(12) {
        0 => { let i = rng.below(v.len() + 1); v.insert(i, b'=') }
        1 => { let i = rng.below(v.len() + 1); for (k, b) in sep.iter().enumerate() { v.insert(i + k, *b) } }
        2 => { v.truncate(rng.below(v.len() + 1)) }
        3 => { let i = rng.below(v.len() + 1); v.insert(i, b'%'); if rng.bool() { v.insert(i + 1, rng.byte()) } if rng.bool() { v.insert((i + 2).min(v.len()), rng.byte()) } }
        4 => { let i = rng.below(v.len() + 1); v.insert(i, *rng.pick(&[0xffu8, 0x80, 0xc3, 0xe3, 0x00, b'"', b'\\', b',', b' ', b';', b'&'])) }
        5 => { if !v.is_empty() { let i = rng.below(v.len()); v.remove(i); } }
        6 => { v.extend_from_slice(b"99999999999999999999999999999999999999") }
        7 => { if let Some(i) = v.iter().position(|&b| b == b'=') { v.remove(i); } }
        8 => { v.extend_from_slice(sep) }
        9 => { let mut w = sep.to_vec(); w.extend(v); v = w }
        10 => { if !v.is_empty() { let i = rng.below(v.len()); v[i] = rng.byte() } }
        _ => { v.extend_from_slice(b",,%2C,") }
    }
    v
}

fn gen_kv_input(rng: &mut Rng, sep: &[u8]) -> (Vec<u8>, &'static str) {
    // (Max-Age: with the "; " separator these pairs read as Set-Cookie directives to the accessor entry of the "other" table)
    let keys = ["x", "x", "x", "alpha", "beta", "gamma", "list", "y", "title", "zzz", "Max-Age", "Max-Age"];
    // values include the delimiters of each format's value grammar: quotes (cookie values may be double-quoted), lone and doubled
    let vals: [&[u8]; 33] = [b"1", b"true", b"false", b"-5", b"255", b"256", b"1.5", b"a", b"%E7%8B%BC", b"hello%20world", b"", b"a,b,c", b"1,2", b"Red", b"dark%20blue", b"U", b"N", b"18446744073709551616",
        b"\"", b"\"\"", b"\"a", b"a\"", b"\"a\"", b"\"\"\"", b"%", b"%4", b"+",
        // around 2^64 and 2^63: where hand-written overflow guards are off by a digit
        b"18446744073709551615", b"18446744073709551617", b"18446744073709551619", b"18446744073709551620", b"9223372036854775808", b"00018446744073709551616"];
    match rng.below(10) {
        0 => ({ let n = rng.below(60); rng.bytes(n) }, "random-bytes"),
        9 if rng.chance(1, 3) => {
            // a long value of multi-byte characters, raw or percent-encoded, shifted by 0-3 ASCII bytes (anything that cuts, caps or
            // indexes text by byte count meets a character boundary here), into whatever field it lands
            let ch = *rng.pick(&["\u{3042}", "\u{e9}", "\u{1f43a}", "\u{72fc}"]);
            let body: String = "a".repeat(rng.below(4)) + &ch.repeat(rng.range(40, 140));
            let val = if rng.bool() { body } else { body.bytes().map(|b| if b.is_ascii_alphanumeric() { (b as char).to_string() } else { format!("%{b:02X}") }).collect() };
            let mut v = vec![];
            v.extend_from_slice(rng.pick(&keys).as_bytes());
            v.push(b'=');
            v.extend_from_slice(val.as_bytes());
            (v, "long-multibyte-value")
        }
        8 if rng.chance(1, 2) => {
            // characters spelled partly with escapes and partly with raw bytes: the decoded text and the raw text differ in validity
            let mut v = vec![];
            v.extend_from_slice(rng.pick(&keys).as_bytes());
            v.push(b'=');
            for _ in 0..rng.range(1, 4) {
                let ch = *rng.pick(&["\u{3042}", "\u{e9}", "\u{1f43a}", "\u{72fc}", "a"]);
                for b in ch.bytes() { if rng.bool() { v.push(b) } else { v.extend_from_slice(format!("%{b:02X}").as_bytes()) } }
            }
            (v, "partly-escaped-characters")
        }
        1 | 2 | 3 | 4 => {
            let n = rng.range(1, 4);
            let mut v = vec![];
            for i in 0..n {
                if i > 0 { v.extend_from_slice(sep) }
                v.extend_from_slice(rng.pick(&keys).as_bytes());
                v.push(b'=');
                v.extend_from_slice(*rng.pick(&vals));
            }
            (v, "grammar-valid")
        }
        _ => {
            let n = rng.range(1, 3);
            let mut v = vec![];
            for i in 0..n {
                if i > 0 { v.extend_from_slice(sep) }
                v.extend_from_slice(rng.pick(&keys).as_bytes());
                v.push(b'=');
                v.extend_from_slice(*rng.pick(&vals));
            }
            let mut m = mutate_text(rng, &v, sep);
            if rng.chance(1, 3) { m = mutate_text(rng, &m, sep) }
            (m, "mutant")
        }
    }
}

fn gen_multipart_input(rng: &mut Rng) -> (Vec<u8>, &'static str) {
    let names = ["x", "title", "doc", "pics", "note"];
    let n = rng.range(0, 4);
    let parts: Vec<FormPart> = (0..n).map(|_| {
        let name = rng.pick(&names).to_string();
        if rng.bool() { FormPart::Text { name, value: rng.pick(&["", "hello", "two\r\nlines", "狼"]).to_string() } }
        else { FormPart::File { name, filename: rng.pick(&["", "a.png", "b c.txt"]).to_string(), mime: rng.pick(&["", "image/png", "multipart/mixed", "text/plain"]).to_string(), content: { let cs: [&[u8]; 4] = [b"", b"abc", b"\r\n", b"\xff\x00--"]; rng.pick(&cs).to_vec() } } }
    }).collect();
    let valid = encode(&parts, &EncodeOpts { boundary: rng.pick(&["b", "----WebKitFormBoundaryX", "a'()+_,-./:=?"]).to_string(), extra_headers: rng.chance(1, 4), extra_at: rng.below(3) as u8, lower_header_names: rng.chance(1, 4), content_type_first: rng.chance(1, 4), text_ctypes: vec![] });
    match rng.below(10) {
        0 => ({ let n = rng.below(120); rng.bytes(n) }, "random-bytes"),
        1 | 2 | 3 => (valid, "grammar-valid"),
        _ => {
            let mut v = valid;
            for _ in 0..rng.range(1, 2) {
                match rng.below(10) {
                    0 => v.truncate(rng.below(v.len() + 1)),
                    1 => { v = String::from_utf8_lossy(&v).replace("\r\n", "\n").into_bytes() }
                    2 => { if let Some(i) = v.windows(2).position(|w| w == b"\r\n") { v.drain(i..i + 2); } }
                    3 => { let i = rng.below(v.len() + 1); v.splice(i..i, b"--b\r\n".iter().copied()); }
                    4 => { v = String::from_utf8_lossy(&v).replacen("form-data", "attachment", 1).into_bytes() }
                    5 => { v = String::from_utf8_lossy(&v).replacen("name=\"", "name=", 1).into_bytes() }
                    6 => { if let Some(i) = v.windows(10).position(|w| w == b"filename=\"") { v.insert(i + 10, 0xff) } v.push(0xff) }
                    7 => { if !v.is_empty() { let i = rng.below(v.len()); v[i] = rng.byte() } }
                    8 => { let i = rng.below(v.len() + 1); v.truncate(i); v.extend_from_slice(b"--") }
                    _ => { v = String::from_utf8_lossy(&v).replacen(": ", ":", 1).into_bytes() }
                }
            }
            (v, "mutant")
        }
    }
}

/* ------------------------------ watchdog: a call that never returns kills the worker (exit 97) ------------------------------ */

static CALL_STARTED_MS: AtomicU64 = AtomicU64::new(0);
fn now_ms() -> u64 { std::time::SystemTime::now().duration_since(std::time::UNIX_EPOCH).unwrap().as_millis() as u64 }
fn process_cpu_ms() -> u64 {
    let mut ts = libc::timespec { tv_sec: 0, tv_nsec: 0 };
    unsafe { libc::clock_gettime(libc::CLOCK_PROCESS_CPUTIME_ID, &mut ts) };
    ts.tv_sec as u64 * 1000 + ts.tv_nsec as u64 / 1_000_000
}
/// The limit is CPU time the process burnt while one call was running (a looping decoder burns CPU; a worker that is merely not scheduled
/// on a loaded machine does not), with a very generous wall-clock backstop (exit 98, reported as inconclusive by the driver).
fn start_watchdog(limit_ms: u64) {
    std::thread::spawn(move || {
        let mut seen_start = 0u64;
        let mut cpu_at_start = 0u64;
        loop {
            std::thread::sleep(std::time::Duration::from_millis(250));
            let s = CALL_STARTED_MS.load(Ordering::SeqCst);
            if s == 0 {
                seen_start = 0;
                continue;
            }
            if s != seen_start {
                seen_start = s;
                cpu_at_start = process_cpu_ms();
                continue;
            }
            if process_cpu_ms().saturating_sub(cpu_at_start) > limit_ms {
                eprintln!("vh c08 watchdog: a decoder call burnt more than {limit_ms} ms of CPU without returning");
                unsafe { libc::_exit(97) }
            }
            if now_ms().saturating_sub(s) > 30 * limit_ms {
                eprintln!("vh c08 watchdog: wall-clock backstop");
                unsafe { libc::_exit(98) }
            }
        }
    });
}

/// CPU time consumed by the calling thread (not wall time: a loaded machine must not change a verdict)
fn thread_cpu_s() -> f64 {
    if cfg!(miri) {
        return 0.0;
    }
    let mut ts = libc::timespec { tv_sec: 0, tv_nsec: 0 };
    unsafe { libc::clock_gettime(libc::CLOCK_THREAD_CPUTIME_ID, &mut ts) };
    ts.tv_sec as f64 + ts.tv_nsec as f64 * 1e-9
}

/// all target types of one decoder on one input, judged by the monitors (shared by the generated workload and by the coverage-guided one)
pub fn run_input(rep: &mut Report, case: u64, dname: &str, table: &[(&'static str, Call)], input: &[u8], iclass: &str, small: bool) {
    // every target type of the decoder on this input (Miri: a rotating subset)
    for (k, (tname, call)) in table.iter().enumerate() {
        if small && (k as u64).wrapping_add(case) % 6 != 0 && iclass != "witness" {
            continue;
        }
        // debug builds carry `assert!(self.side == ..)` guards against target types the format cannot represent (a scalar at top level,
        // a map as a value): they fire on the type, not on the bytes, and do not exist in release builds; not the property's subject
        if cfg!(debug_assertions) && (tname.starts_with("top:") || *tname == "F<F<u8>>") && dname != "multipart" {
            continue;
        }
        rep.eval();
        CALL_STARTED_MS.store(now_ms(), Ordering::SeqCst);
        let t0 = thread_cpu_s();
        let r = catch(|| call(input));
        let dt = thread_cpu_s() - t0;
        CALL_STARTED_MS.store(0, Ordering::SeqCst);
        let oc = match &r { Ok(Out::Ok) => "ok", Ok(Out::Err) => "err", Ok(Out::Problem(_)) => "problem", Err(_) => "panic" };
        rep.count(&format!("{dname}:{oc}"));
        rep.distinct(&format!("{dname}:{tname}:{oc}:{iclass}"));
        let cj = || json!({"case_index": case, "decoder": dname, "target": tname, "input": crate::rng::show(input), "input_hex": crate::rng::hex(input), "input_class": iclass});
        match r {
            Err(p) => rep.violation(&format!("C08/panic:{dname}@{}", crate::report::panic_site(&p)), &format!("{dname} into {tname} panicked on {}: {p}", crate::rng::show(input)), cj()),
            Ok(Out::Problem(ps)) if ps[0].starts_with("panic: ") => rep.violation(&format!("C08/panic:{dname}@{}", crate::report::panic_site(&ps[0])), &format!("{dname} into {tname} on {}: {}", crate::rng::show(input), ps[0]), cj()),
            Ok(Out::Problem(ps)) => rep.violation(&format!("C08/bad-value:{dname}:{}", if ps[0].contains("UTF-8") { "non-utf8-string" } else { "slice-outside-input" }), &format!("{dname} into {tname} on {}: {}", crate::rng::show(input), ps[0]), cj()),
            _ => {}
        }
        if dt > 2.0 && input.len() <= 4096 {
            // CPU time of this thread, not wall time; and it only counts if three more measurements of the same call agree
            rep.count("slow_calls_remeasured");
            let again: Vec<f64> = (0..3).map(|_| { let t = thread_cpu_s(); let _ = catch(|| call(input)); thread_cpu_s() - t }).collect();
            let least = again.iter().cloned().fold(f64::MAX, f64::min);
            if least > 2.0 {
                rep.violation(&format!("C08/slow:{dname}"), &format!("{dname} into {tname} took {dt:.1}s of CPU time on {} bytes (re-measured: {again:.1?})", input.len()), cj());
            }
        }
        if rep.want_sample() && oc == "err" && iclass == "mutant" {
            rep.sample(json!({"decoder": dname, "target": tname, "input": crate::rng::show(input), "outcome": oc}));
        }
    }
}

/// decoder tables by name, for harness/src/fuzz.rs
pub fn tables() -> Vec<(&'static str, Vec<(&'static str, Call)>)> {
    vec![("urlencoded", urlencoded_table()), ("cookie", cookie_table()), ("multipart", multipart_table()), ("other", other_table())]
}

pub fn run(args: &Args, rep: &mut Report) {
    let small = args.flag("small").is_some();
    if !small {
        // memory blow-ups abort the worker instead of the machine. Not under AddressSanitizer: its shadow memory needs terabytes of
        // address space, and its own allocator limit (ASAN_OPTIONS hard_rss_limit_mb, set by the driver) does the same job there.
        if std::env::var_os("ASAN_OPTIONS").is_none() && std::env::var_os("VH_UNDER_VALGRIND").is_none() {
            unsafe {
                let lim = libc::rlimit { rlim_cur: 6 << 30, rlim_max: 6 << 30 };
                libc::setrlimit(libc::RLIMIT_AS, &lim);
            }
        }
        start_watchdog(20_000);
    }
    let tables: Vec<(&str, Vec<(&'static str, Call)>)> = vec![("urlencoded", urlencoded_table()), ("cookie", cookie_table()), ("multipart", multipart_table()), ("other", other_table())];
    if args.shard == 0 && args.start == 0 {
        // witnesses of the repaired findings (and of inputs seeded changes needed), whatever the seed
        let w: [(&str, &[u8]); 13] = [
            ("other", b"files/%E3%81\x82.txt"), ("other", b"\xE3%81%82?q=%E3\x81%82"),
            ("urlencoded", b"x=1=2"), ("urlencoded", b"x=%FF&y"), ("cookie", b"x=%FF"), ("cookie", b"x=\""), ("cookie", b"x=\"; y=\"\""),
            ("multipart", b"--b\r\nContent-Disposition: form-data; name=\"x\"; filename=\"\"\r\nContent-Type: application/octet-stream\r\n\r\n\r\n--b--\r\n"),
            ("multipart", b"--b\r\nContent-Disposition: form-data; name=\"x\"\r\n\r\n--b--\r\n"),
            ("other", b"aaaaaaaaaaaaaaaaaaaaaaaaaaaaaaaaaaaaaaaaaaaa; Max-Age=x; Max-Age=99999999999999999999999999"),
            ("other", b"aaaaaaaaaaaa; Max-Age=\"7\""),
            ("other", b"aaaaaaaaaaaaaaaaaaaaaaaaaaaaaaaaaaaa; Max-Age=18446744073709551619"),
            ("other", b"aaaaaaaaaaaaaaaaaaaaaaaaaaaaaaaaaaaa; Max-Age=18446744073709551616"),
        ];
        for (k, (d, input)) in w.iter().enumerate() {
            let (dname, table) = tables.iter().find(|(n, _)| n == d).unwrap();
            rep.begin_with(u64::MAX - k as u64, json!({"decoder": dname, "input_hex": crate::rng::hex(input)}));
            run_input(rep, u64::MAX - k as u64, dname, table, input, "witness", small);
            rep.end(u64::MAX - k as u64);
        }
    }
    let mut case = args.shard;
    while case < args.budget {
        if case >= args.start {
            let mut rng = Rng::derive(args.seed, 8, case);
            let (dname, table) = rng.pick(&tables);
            let (input, iclass) = match *dname {
                "urlencoded" => gen_kv_input(&mut rng, b"&"),
                "cookie" => gen_kv_input(&mut rng, b"; "),
                "multipart" => gen_multipart_input(&mut rng),
                _ => { let (v, c) = gen_kv_input(&mut rng, b"; "); if rng.bool() { (v.into_iter().skip_while(|_| false).collect(), c) } else { ({ let n = rng.below(40); rng.bytes(n) }, "random-bytes") } }
            };
            rep.begin_with(case, json!({"decoder": dname, "input_hex": crate::rng::hex(&input)}));
            run_input(rep, case, dname, table, &input, iclass, small);
            rep.end(case);
        }
        case += args.nshards;
    }
}
