//! C15 – generated OpenAPI document. The worker assembles applications from a catalogue of handler
//! signatures, obtains the document through `Ohkami::__openapi_document_bytes__`, sends one request
//! per documented operation through the real router, and dumps (description, document, probe results);
//! /verif/oracle/openapi_judge.py (jsonschema) is the judge of the document.
#![cfg(feature = "openapi")]

use crate::report::{catch, Args, Report};
use crate::rng::Rng;
use crate::trace::{self, Ev};
use crate::web::{self, Step};
use ohkami::fang::{BasicAuth, JWT};
use ohkami::format::{Query, URLEncoded, JSON};
use ohkami::openapi::{self, Schema};
use ohkami::serde::{Deserialize, Serialize};
use ohkami::typed::status;
use ohkami::__verif__ as hook;
use ohkami::{IntoResponse, Response, Route};
use serde_json::{json, Value};
use std::io::Write;
use std::sync::Arc;

/* ------------------------------ schemas ------------------------------ */

#[derive(Serialize, Deserialize, Schema, Clone)]
#[openapi(component)]
pub struct Item {
    pub id: u64,
    pub name: String,
    pub tags: Vec<String>,
    pub active: bool,
    pub price: Option<f64>,
}
#[derive(Serialize, Deserialize, Schema, Clone)]
pub struct NewItem {
    pub name: String,
    #[serde(default)]
    pub tags: Vec<String>,
    pub parent: Option<Item>,
}
#[derive(Serialize, Deserialize, Schema, Clone)]
#[openapi(component)]
pub struct Page {
    pub items: Vec<Item>,
    pub next: Option<u32>,
}
#[derive(Deserialize, Schema)]
#[serde(rename_all = "camelCase")]
pub struct Search {
    // (required fields on purpose not in alphabetical order, with an optional one between them)
    pub q: String,
    pub lang: String,
    pub page: Option<u32>,
    pub from: u32,
    // names as serde reads them: the container's rule applies to `page_size` (-> pageSize); an explicit rename wins over the rule (stays sort_by)
    pub page_size: Option<u32>,
    #[serde(rename = "sort_by")]
    pub sort: Option<String>,
}
#[derive(Deserialize, Schema)]
pub struct LoginForm {
    pub user: String,
    pub pass: String,
}

pub struct ApiError;
impl IntoResponse for ApiError {
    fn into_response(self) -> Response {
        Response::NotFound()
    }
    fn openapi_responses() -> openapi::Responses {
        openapi::Responses::new([(404, openapi::Response::when("not found")), (500, openapi::Response::when("internal error"))])
    }
}

/// a second type that claims the component name `Item` with another shape: registering both must be refused, not silently merged
pub mod other {
    use super::*;
    #[derive(Serialize, Deserialize, Schema, Clone)]
    #[openapi(component)]
    pub struct Item {
        pub sku: String,
        pub qty: u32,
    }
}

fn item() -> Item {
    Item { id: 1, name: "x".into(), tags: vec![], active: true, price: None }
}

/* ------------------------------ catalogue of handler signatures ------------------------------ */

/// (id, path param types, query params (name, required, type), request body media type, response codes, body sample for the probe)
pub struct Sig {
    pub id: u32,
    pub params: &'static [&'static str],
    pub query: &'static [(&'static str, bool, &'static str)],
    pub body: Option<&'static str>,
    pub codes: &'static [u16],
    pub sample_body: &'static str,
    pub components: &'static [&'static str],
}
pub const SIGS: [Sig; 10] = [
    Sig { id: 0, params: &[], query: &[], body: None, codes: &[200], sample_body: "", components: &[] },
    Sig { id: 1, params: &["integer"], query: &[], body: None, codes: &[200], sample_body: "", components: &[] },
    Sig { id: 2, params: &["string", "integer"], query: &[], body: None, codes: &[200], sample_body: "", components: &["Item"] },
    Sig { id: 3, params: &[], query: &[("q", true, "string"), ("lang", true, "string"), ("page", false, "integer"), ("from", true, "integer"), ("pageSize", false, "integer"), ("sort_by", false, "string")], body: None, codes: &[200], sample_body: "", components: &["Page", "Item"] },
    Sig { id: 4, params: &[], query: &[], body: Some("application/json"), codes: &[201], sample_body: r#"{"name":"n","tags":[],"parent":null}"#, components: &["Item"] },
    Sig { id: 5, params: &["integer"], query: &[], body: Some("application/json"), codes: &[200, 404, 500], sample_body: r#"{"name":"n","parent":null}"#, components: &["Item"] },
    Sig { id: 6, params: &[], query: &[], body: Some("application/x-www-form-urlencoded"), codes: &[204], sample_body: "user=u&pass=p", components: &[] },
    Sig { id: 7, params: &["string"], query: &[("q", true, "string"), ("lang", true, "string"), ("page", false, "integer"), ("from", true, "integer"), ("pageSize", false, "integer"), ("sort_by", false, "string")], body: None, codes: &[200], sample_body: "", components: &["Item"] },
    Sig { id: 8, params: &[], query: &[], body: None, codes: &[204], sample_body: "", components: &[] },
    Sig { id: 9, params: &[], query: &[], body: None, codes: &[200], sample_body: "", components: &["Item"] },
];

macro_rules! sig_handler {
    ($hs:expr, $m:ident, $sig:expr, $hid:expr) => {{
        let hid: u32 = $hid;
        match $sig {
            0 => $hs.$m(move || { trace::push(Ev::Handler(hid, vec![])); async { "text" } }),
            1 => $hs.$m(move |id: u32| { trace::push(Ev::Handler(hid, vec![id.to_string()])); async move { format!("{id}") } }),
            2 => $hs.$m(move |(a, b): (String, u64)| { trace::push(Ev::Handler(hid, vec![a, b.to_string()])); async { JSON(item()) } }),
            3 => $hs.$m(move |Query(q): Query<Search>| { trace::push(Ev::Handler(hid, vec![q.q.clone(), format!("{:?}", q.page)])); async { JSON(Page { items: vec![item()], next: None }) } }),
            4 => $hs.$m(move |JSON(b): JSON<NewItem>| { trace::push(Ev::Handler(hid, vec![b.name.clone()])); async { status::Created(JSON(item())) } }),
            5 => $hs.$m(move |id: u64, JSON(b): JSON<NewItem>| { trace::push(Ev::Handler(hid, vec![id.to_string(), b.name.clone()])); async { Result::<JSON<Item>, ApiError>::Ok(JSON(item())) } }),
            6 => $hs.$m(move |URLEncoded(f): URLEncoded<LoginForm>| { trace::push(Ev::Handler(hid, vec![f.user.clone(), f.pass.clone()])); async { status::NoContent } }),
            9 => $hs.$m(move || { trace::push(Ev::Handler(hid, vec![])); async { JSON(other::Item { sku: "s".into(), qty: 1 }) } }),
            7 => $hs.$m(move |name: String, Query(q): Query<Search>| { trace::push(Ev::Handler(hid, vec![name, q.q.clone()])); async { JSON(vec![item()]) } }),
            _ => $hs.$m(move || { trace::push(Ev::Handler(hid, vec![])); async { status::NoContent } }),
        }
    }};
}

#[derive(Clone, Debug)]
struct RouteD {
    /// relative route segments: (is_param, name)
    segs: Vec<(bool, String)>,
    /// (method index into GET PUT POST PATCH DELETE, signature id, handler id)
    methods: Vec<(usize, u32, u32)>,
}
#[derive(Clone, Debug)]
struct AppD {
    id: u32,
    /// 0 none, 1 JWT, 2 BasicAuth
    auth: u8,
    tag: Option<&'static str>,
    routes: Vec<RouteD>,
    mounts: Vec<(Vec<(bool, String)>, AppD)>,
}

const METHODS: [&str; 5] = ["GET", "PUT", "POST", "PATCH", "DELETE"];

fn lit(segs: &[(bool, String)]) -> String {
    if segs.is_empty() { "/".into() } else { segs.iter().map(|(p, n)| if *p { format!("/:{n}") } else { format!("/{n}") }).collect() }
}
fn leak(s: String) -> &'static str {
    Box::leak(s.into_boxed_str())
}

fn build(app: &AppD) -> ohkami::Ohkami {
    let mut items = vec![];
    for r in &app.routes {
        let l = leak(lit(&r.segs));
        let mut hs: Option<hook::HandlerSet> = None;
        for (m, sig, hid) in &r.methods {
            hs = Some(match (hs, *m) {
                (None, 0) => sig_handler!(l, GET, *sig, *hid), (None, 1) => sig_handler!(l, PUT, *sig, *hid), (None, 2) => sig_handler!(l, POST, *sig, *hid), (None, 3) => sig_handler!(l, PATCH, *sig, *hid), (None, _) => sig_handler!(l, DELETE, *sig, *hid),
                (Some(s), 0) => sig_handler!(s, GET, *sig, *hid), (Some(s), 1) => sig_handler!(s, PUT, *sig, *hid), (Some(s), 2) => sig_handler!(s, POST, *sig, *hid), (Some(s), 3) => sig_handler!(s, PATCH, *sig, *hid), (Some(s), _) => sig_handler!(s, DELETE, *sig, *hid),
            });
        }
        if let Some(hs) = hs { items.push(hook::Item::Handlers(hs)) }
    }
    for (prefix, sub) in &app.mounts {
        items.push(hook::Item::By(leak(lit(prefix)).By(build(sub))));
    }
    let fangs: Option<Arc<dyn ohkami::__internal__::Fangs>> = match (app.auth, app.tag) {
        (0, None) => None,
        (1, None) => Some(Arc::new(JWT::<Value>::default("secret"))),
        (2, None) => Some(Arc::new(BasicAuth { username: "u", password: "p" })),
        // a second kind of token for an inner application: same fang type, other header, other scheme name (so that it can be stacked on 1 or 2)
        (3, None) => Some(Arc::new(admin_jwt())),
        (0, Some(t)) => Some(Arc::new(openapi::Tag(t))),
        (1, Some(t)) => Some(Arc::new((openapi::Tag(t), JWT::<Value>::default("secret")))),
        (3, Some(t)) => Some(Arc::new((openapi::Tag(t), admin_jwt()))),
        (_, Some(t)) => Some(Arc::new((openapi::Tag(t), BasicAuth { username: "u", password: "p" }))),
        _ => None,
    };
    hook::assemble(fangs, items)
}

fn admin_jwt() -> JWT<Value> {
    JWT::<Value>::default("admin-secret").get_token_by(|req| req.headers.get("X-Admin-Token"), openapi::SecurityScheme::Bearer("adminAuth", None))
}

thread_local! { static SPLIT_MOUNT_POINTS: std::cell::Cell<u64> = std::cell::Cell::new(0); }

/// generate: the number of path params of the full route equals the signature's (the property's document claims are about declared
/// params; routes with more template params than the handler declares are generated separately as `undeclared-template-param` cases)
fn gen_app(rng: &mut Rng, next_app: &mut u32, next_h: &mut u32, depth: usize, prefix_params: usize, undeclared: bool, guarded: u8) -> AppD {
    let id = *next_app;
    *next_app += 1;
    // one authentication fang per path at most (a request can carry one Authorization header)
    // `guarded`: bit k = an application above carries auth kind k. Kinds 1 (JWT) and 2 (Basic) both read Authorization, so they are never
    // stacked on each other; kind 3 (JWT in X-Admin-Token, scheme adminAuth) may sit below one of them: two schemes on one operation
    let auth = if guarded == 0 { *rng.pick_weighted(&[(5, 0u8), (2, 1), (2, 2), (1, 3)]) } else if guarded & 0b1000 != 0 { 0 } else { *rng.pick_weighted(&[(2, 0u8), (1, 3)]) };
    let tag = if rng.chance(1, 3) { Some(*rng.pick(&["users", "items", "admin"])) } else { None };
    let mut routes: Vec<RouteD> = vec![];
    let names = ["items", "users", "search", "login", "a", "b", "health"];
    let pnames = ["id", "name", "key"];
    for _ in 0..rng.range(1, 4) {
        // signature 9 (the contradicting `Item`) is rare: most applications must stay describable
        let sig = if rng.chance(1, 40) { 9 } else { rng.below(9) as u32 };
        let need = SIGS[sig as usize].params.len();
        if need < prefix_params { continue }
        let own = need - prefix_params + if undeclared && rng.chance(1, 3) && need + 1 <= 2 { 1 } else { 0 };
        let mut segs: Vec<(bool, String)> = vec![(false, rng.pick(&names).to_string())];
        for k in 0..own {
            segs.push((true, format!("{}{}", pnames[(prefix_params + k) % 3], prefix_params + k)));
            if rng.bool() { segs.push((false, rng.pick(&["x", "detail"]).to_string())) }
        }
        if rng.chance(1, 6) && own == 0 { segs.clear() }
        let existing = routes.iter_mut().find(|r| r.segs.len() == segs.len() && r.segs.iter().zip(&segs).all(|(a, b)| a.0 == b.0 && (a.0 || a.1 == b.1)));
        let m = rng.below(5);
        match existing {
            Some(r) => {
                // same route: the params must agree in number; add another method if free
                if r.methods.iter().any(|(mm, _, _)| *mm == m) || r.segs.iter().filter(|s| s.0).count() != segs.iter().filter(|s| s.0).count() { continue }
                let h = *next_h; *next_h += 1;
                r.methods.push((m, sig, h));
            }
            None => {
                if routes.iter().any(|r| r.segs.first() == segs.first() && r.segs.len() != segs.len() && !segs.is_empty()) { continue }
                let h = *next_h; *next_h += 1;
                routes.push(RouteD { segs, methods: vec![(m, sig, h)] });
            }
        }
    }
    let mut mounts = vec![];
    if depth < 2 && rng.chance(2, 5) {
        let with_param = prefix_params == 0 && rng.chance(1, 3);
        let mut prefix: Vec<(bool, String)> = vec![(false, rng.pick(&["api", "v1", "t"]).to_string())];
        if with_param { prefix.push((true, "tenant0".to_string())) }
        if !routes.iter().any(|r| r.segs.first() == prefix.first()) {
            let mut sub = gen_app(rng, next_app, next_h, depth + 1, prefix_params + with_param as usize, undeclared, guarded | if auth != 0 { 1 << auth } else { 0 });
            // every third static mount: the methods of the mount point itself are split over the two applications - the mounted one answers
            // some at its "/", the mounting one registers another at exactly the prefix (its routes come first in the tuple)
            // (only for mounted applications without fangs of their own: whose fangs guard a path that two applications share is C04's
            // side condition, not this property's subject)
            if !with_param && prefix_params == 0 && sub.auth == 0 && sub.tag.is_none() && rng.chance(1, 2) {
                if !sub.routes.iter().any(|r| r.segs.is_empty()) {
                    let h = *next_h; *next_h += 1;
                    sub.routes.push(RouteD { segs: vec![], methods: vec![(rng.below(5), *rng.pick(&[0u32, 8]), h)] });
                }
                let used: Vec<usize> = sub.routes.iter().filter(|r| r.segs.is_empty()).flat_map(|r| r.methods.iter().map(|m| m.0)).collect();
                let free: Vec<usize> = (0..5).filter(|m| !used.contains(m)).collect();
                if !free.is_empty() {
                    let h = *next_h; *next_h += 1;
                    routes.push(RouteD { segs: prefix.clone(), methods: vec![(*rng.pick(&free), *rng.pick(&[0u32, 3, 4, 6, 8]), h)] });
                    SPLIT_MOUNT_POINTS.with(|c| c.set(c.get() + 1));
                }
            }
            mounts.push((prefix, sub));
        }
    }
    AppD { id, auth, tag, routes, mounts }
}

fn flatten(app: &AppD, prefix: &[(bool, String)], auth: Vec<u8>, tags: Vec<&'static str>, out: &mut Vec<Value>) {
    let mut auth = auth;
    if app.auth != 0 { auth.push(app.auth) }
    let mut tags = tags;
    if let Some(t) = app.tag { tags.push(t) }
    for r in &app.routes {
        let full: Vec<(bool, String)> = prefix.iter().cloned().chain(r.segs.iter().cloned()).collect();
        let template = if full.is_empty() { "/".to_string() } else { full.iter().map(|(p, n)| if *p { format!("/{{{n}}}") } else { format!("/{n}") }).collect() };
        for (m, sig, hid) in &r.methods {
            let s = &SIGS[*sig as usize];
            out.push(json!({"method": METHODS[*m].to_lowercase(), "template": template, "route": lit(&full), "sig": sig, "handler": hid,
                "template_params": full.iter().filter(|s| s.0).map(|s| s.1.clone()).collect::<Vec<_>>(), "param_types": s.params,
                "query": s.query.iter().map(|(n, r, t)| json!({"name": n, "required": r, "type": t})).collect::<Vec<_>>(), "body": s.body, "codes": s.codes, "components": s.components,
                "auth": auth.iter().map(|a| match *a { 1 => "jwtAuth", 3 => "adminAuth", _ => "basicAuth" }).collect::<Vec<_>>(), "tags": tags}));
        }
    }
    for (p, sub) in &app.mounts {
        let full: Vec<(bool, String)> = prefix.iter().cloned().chain(p.iter().cloned()).collect();
        flatten(sub, &full, auth.clone(), tags.clone(), out);
    }
}

pub fn run(args: &Args, rep: &mut Report) {
    let dump_path = args.flag("dump").map(|d| format!("{d}/c15-cases-{}-{}.jsonl", args.shard, args.start));
    let mut dump = dump_path.as_ref().map(|p| std::io::BufWriter::new(std::fs::File::create(p).expect("dump file")));
    let mut case = args.shard;
    while case < args.budget {
        if case >= args.start {
            rep.begin(case);
            let mut rng = Rng::derive(args.seed, 15, case);
            let undeclared = case % 8 == 7;
            let (mut na, mut nh) = (1u32, 1u32);
            let app = gen_app(&mut rng, &mut na, &mut nh, 0, 0, undeclared, 0);
            rep.count_n("mount_points_whose_methods_are_split_over_two_applications", SPLIT_MOUNT_POINTS.with(|c| c.replace(0)));
            let mut ops: Vec<Value> = vec![];
            flatten(&app, &[], vec![], vec![], &mut ops);
            rep.eval();
            rep.count_n("operations_registered", ops.len() as u64);
            let mut sigset: Vec<u64> = ops.iter().map(|o| o["sig"].as_u64().unwrap()).collect();
            sigset.sort();
            sigset.dedup();
            for s in &sigset { rep.count(&format!("signature_used:{s}")) }
            rep.distinct(&format!("{:?}:{}:{}", sigset, na, ops.iter().map(|o| o["auth"].as_array().unwrap().len().to_string()).collect::<Vec<_>>().join("")));
            let doc = catch(|| build(&app).__openapi_document_bytes__(openapi::OpenAPI { title: "t", version: "1", servers: &[] }));
            // two types claiming the component name `Item` with different shapes: the only acceptable outcome is a loud refusal
            let contradicting = sigset.contains(&9) && sigset.iter().any(|s| [2u64, 3, 4, 5, 7].contains(s));
            if contradicting {
                rep.count("apps_with_contradicting_components");
                match &doc {
                    Err(p) if p.contains("contradict") => rep.count("contradicting_components_refused"),
                    Err(p) => rep.violation(&format!("C15/generation-panicked@{}", crate::report::panic_site(p)), &format!("document generation panicked: {p}"), json!({"case_index": case, "operations": ops})),
                    Ok(_) => rep.violation("C15/contradicting-components-merged", "two different schemas registered under the component name `Item` and a document was produced all the same", json!({"case_index": case, "operations": ops})),
                }
                rep.end(case);
                case += args.nshards;
                continue;
            }
            let doc = match doc {
                Ok(b) => b,
                Err(p) => {
                    rep.violation(&format!("C15/generation-panicked@{}", crate::report::panic_site(&p)), &format!("document generation panicked: {p}"), json!({"case_index": case, "operations": ops}));
                    rep.end(case);
                    case += args.nshards;
                    continue;
                }
            };
            let docv: Value = match serde_json::from_slice(&doc) {
                Ok(v) => v,
                Err(e) => {
                    rep.violation("C15/not-json", &format!("document is not JSON: {e}"), json!({"case_index": case}));
                    rep.end(case);
                    case += args.nshards;
                    continue;
                }
            };
            // cross-check: one request per documented operation reaches exactly the handler registered for it
            let router = hook::Router::new(build(&app));
            let mut probes: Vec<Value> = vec![];
            if let Some(paths) = docv["paths"].as_object() {
                for (template, item) in paths {
                    for (method, op) in item.as_object().into_iter().flatten() {
                        let reg = ops.iter().find(|o| o["template"] == json!(template) && o["method"] == json!(method));
                        // fill the template from the declared path parameters
                        let mut path = template.clone();
                        for p in op["parameters"].as_array().into_iter().flatten() {
                            if p["in"] == json!("path") {
                                let v = if p["schema"]["type"] == json!("integer") { "42" } else { "abc" };
                                path = path.replace(&format!("{{{}}}", p["name"].as_str().unwrap_or("")), v);
                            }
                        }
                        // undeclared template params (reported by the judge) get a filler so that the probe can still be sent
                        let mut filled = String::new();
                        let mut inb = false;
                        for c in path.chars() { match c { '{' => { inb = true; filled.push_str("7") } '}' => inb = false, _ if inb => {} _ => filled.push(c) } }
                        let mut q = String::new();
                        for p in op["parameters"].as_array().into_iter().flatten() {
                            if p["in"] == json!("query") && p["required"] == json!(true) {
                                q.push_str(&format!("{}{}={}", if q.is_empty() { "?" } else { "&" }, p["name"].as_str().unwrap_or(""), if p["schema"]["type"] == json!("integer") { "1" } else { "s" }));
                            }
                        }
                        let media = op["requestBody"]["content"].as_object().and_then(|c| c.keys().next().cloned());
                        let sample = reg.map(|r| SIGS[r["sig"].as_u64().unwrap() as usize].sample_body).unwrap_or("");
                        let mut hs: Vec<(&str, String)> = vec![("Host", "t".into())];
                        if let Some(m) = &media { hs.push(("Content-Type", m.clone())); hs.push(("Content-Length", sample.len().to_string())) }
                        let secured = op["security"].as_array().map(|a| !a.is_empty()).unwrap_or(false);
                        // credentials as the documented security requirement asks for
                        let schemes: Vec<String> = op["security"].as_array().into_iter().flatten().flat_map(|m| m.as_object().into_iter().flat_map(|o| o.keys().cloned())).collect();
                        if schemes.iter().any(|s| s == "jwtAuth") {
                            let tok: String = JWT::<Value>::default("secret").issue(json!({"sub": "probe"})).into();
                            hs.push(("Authorization", format!("Bearer {tok}")));
                        } else if schemes.iter().any(|s| s == "basicAuth") {
                            hs.push(("Authorization", "Basic dTpw".into()));
                        }
                        if schemes.iter().any(|s| s == "adminAuth") {
                            let tok: String = JWT::<Value>::default("admin-secret").issue(json!({"sub": "probe-admin"})).into();
                            hs.push(("X-Admin-Token", tok));
                        }
                        let hs2: Vec<(&str, &str)> = hs.iter().map(|(k, v)| (*k, v.as_str())).collect();
                        let bytes = web::build_request(&method.to_uppercase(), &format!("{filled}{q}"), &hs2, if media.is_some() { sample.as_bytes() } else { b"" });
                        trace::clear();
                        let step = web::oneshot(&router, &bytes);
                        let ran: Vec<u32> = trace::take().iter().filter_map(|e| if let Ev::Handler(i, _) = e { Some(*i) } else { None }).collect();
                        let status = match &step { Step::Handled(b) | Step::Refused(b) => crate::httpref::parse_response(b, false).map(|r| r.status).unwrap_or(0), _ => 0 };
                        probes.push(json!({"template": template, "method": method, "request": crate::rng::show(&bytes), "handler_ran": ran, "status": status, "documented_security": secured,
                            "registered_handler": reg.map(|r| r["handler"].clone())}));
                        rep.count("operations_probed");
                    }
                }
            }
            let rec = json!({"case_index": case, "undeclared_case": undeclared, "operations": ops, "document": docv, "probes": probes});
            if let Some(d) = dump.as_mut() {
                let _ = writeln!(d, "{}", rec);
            }
            if rep.want_sample() && ops.len() >= 3 {
                rep.sample(json!({"operations": ops.iter().map(|o| format!("{} {} sig{} auth{:?}", o["method"].as_str().unwrap(), o["template"].as_str().unwrap(), o["sig"], o["auth"])).collect::<Vec<_>>(), "documented_paths": docv["paths"].as_object().map(|p| p.keys().cloned().collect::<Vec<_>>())}));
            }
            rep.end(case);
        }
        case += args.nshards;
    }
    if let Some(mut d) = dump {
        let _ = d.flush();
    }
}
