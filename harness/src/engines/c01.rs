//! C01 – routing dispatch against a segment-wise reference model.

use crate::appgen::*;
use crate::httpref::{parse_response, percent_decode_strict};
use crate::report::{catch, Args, Report};
use crate::rng::Rng;
use crate::trace::{self, Ev};
use crate::web::{self, Step};
use ohkami::__verif__ as hook;
use serde_json::json;

/* ------------------------------ generation ------------------------------ */

fn gen_app(rng: &mut Rng, ids: &mut IdGen, depth: usize, params_left: usize, taken_above: &RouteT) -> AppDesc {
    let _ = taken_above;
    let id = ids.app();
    // one application in eight is *wide*: 10-18 items at the top level, all answering GET, so that one node of one method tree gets more
    // children than any small-node special case covers (linear scan vs. bisection, inline vs. heap storage), among them compressed chains
    let wide = depth == 0 && rng.chance(1, 8) && !crate::reqref::SMALL.load(std::sync::atomic::Ordering::Relaxed);
    let n_items = if wide { rng.range(10, 18) } else { rng.range(1, if depth == 0 { 7 } else { 4 }) };
    let mut items: Vec<ItemDesc> = vec![];
    // patterns used so far in this app (relative): (pattern, is_mount)
    let mut used: Vec<(RouteT, bool)> = vec![];
    for _ in 0..n_items {
        let want_mount = depth < 2 && rng.chance(1, 4);
        if want_mount {
            let mut prefix = gen_route(rng, 2, params_left.min(1));
            if prefix.is_empty() {
                prefix.push(Seg::S(rng.pick(&STATIC_NAMES).to_string()));
            }
            // no mount above or below another mount, no route of this app exactly at the prefix; routes of this app *below* the prefix are
            // fine as long as their next segment cannot meet a first segment of the mounted application (ohkami refuses that, in one
            // registration order at least): `/api/:id` here plus an application with `/me`, `/me/settings` mounted at `/api` is an ordinary set-up
            if used.iter().any(|(r, m)| *m && (shape_prefix(&prefix, r) || shape_prefix(r, &prefix))) {
                continue;
            }
            let sub = gen_app(rng, ids, depth + 1, params_left - n_params(&prefix), &prefix);
            // a route of this application exactly AT the prefix (`"/users".GET(list)` next to `"/users".By(sub)`) is fine when the mounted
            // application has no route of its own at `/` (two handlers for one method at one place are refused by ohkami)
            if used.iter().any(|(r, m)| !*m && same_shape(r, &prefix)) && has_root_route(&sub) {
                continue;
            }
            if used.iter().any(|(r, m)| !*m && r.len() > prefix.len() && shape_prefix(&prefix, r) && first_seg_conflict(&sub, &r[prefix.len()])) {
                continue;
            }
            used.push((prefix.clone(), true));
            items.push(ItemDesc::Mount { prefix, app: sub });
        } else {
            let mut route = gen_route(rng, 4, params_left);
            // one route in five is put below a prefix at which this application mounts another one
            if rng.chance(1, 5) {
                let mps: Vec<RouteT> = items.iter().filter_map(|it| match it { ItemDesc::Mount { prefix, .. } => Some(prefix.clone()), _ => None }).collect();
                if !mps.is_empty() {
                    let mp = rng.pick(&mps).clone();
                    let mut extra = gen_route(rng, 2, params_left.saturating_sub(n_params(&mp)).min(1));
                    if extra.is_empty() && rng.bool() { extra.push(Seg::S(rng.pick(&STATIC_NAMES).to_string())) }
                    route = [mp, extra].concat();
                }
            }
            if n_params(&route) > params_left {
                continue;
            }
            // routes split over several items are allowed as long as (route, method) stays unique; below a mount prefix see above
            if items.iter().any(|it| matches!(it, ItemDesc::Mount { prefix, app } if shape_prefix(prefix, &route) && (if route.len() == prefix.len() { has_root_route(app) } else { first_seg_conflict(app, &route[prefix.len()]) }))) {
                continue;
            }
            if items.iter().any(|it| matches!(it, ItemDesc::Mount { prefix, .. } if shape_prefix(prefix, &route))) {
                ROUTES_BELOW_MOUNT.fetch_add(1, std::sync::atomic::Ordering::Relaxed);
            }
            let existing: Vec<usize> = items
                .iter()
                .filter_map(|it| match it {
                    ItemDesc::Routes { route: r, methods } if same_shape(r, &route) => Some(methods.iter().map(|(m, _)| *m).collect::<Vec<_>>()),
                    _ => None,
                })
                .flatten()
                .collect();
            let mut methods = vec![];
            let mut ms: Vec<usize> = (0..5).collect();
            rng.shuffle(&mut ms);
            let k = *rng.pick_weighted(&[(6, 1usize), (3, 2), (1, 3), (1, 5)]);
            if wide {
                ms.retain(|m| *m != 0);
                ms.insert(0, 0);
            }
            for m in ms.into_iter().take(k) {
                if existing.contains(&m) {
                    continue;
                }
                methods.push((m, HandlerDesc { id: ids.handler(), kind: HKind::Req, local: vec![] }));
            }
            if methods.is_empty() {
                continue;
            }
            used.push((route.clone(), false));
            items.push(ItemDesc::Routes { route, methods });
        }
    }
    if items.is_empty() {
        items.push(ItemDesc::Routes { route: vec![Seg::S("only".into())], methods: vec![(0, HandlerDesc { id: ids.handler(), kind: HKind::Req, local: vec![] })] });
    }
    AppDesc { id, fangs: vec![], items }
}

pub static ROUTES_BELOW_MOUNT: std::sync::atomic::AtomicU64 = std::sync::atomic::AtomicU64::new(0);

fn has_root_route(app: &AppDesc) -> bool {
    app.items.iter().any(|it| matches!(it, ItemDesc::Routes { route, .. } if route.is_empty()))
}

/// would a route of the mounting application whose first segment below the mount prefix is `seg` meet a first segment of the mounted one?
fn first_seg_conflict(app: &AppDesc, seg: &Seg) -> bool {
    app.items.iter().any(|it| {
        let first = match it { ItemDesc::Routes { route, .. } => route.first(), ItemDesc::Mount { prefix, .. } => prefix.first() };
        match (first, seg) { (Some(Seg::S(a)), Seg::S(b)) => a == b, (Some(Seg::P(_)), Seg::P(_)) => true, _ => false }
    })
}

/// choose typed-param handler kinds where the full route allows it
fn assign_kinds(app: &mut AppDesc, rng: &mut Rng, prefix_params: usize) {
    for it in &mut app.items {
        match it {
            ItemDesc::Routes { route, methods } => {
                let n = prefix_params + n_params(route);
                for (_, h) in methods.iter_mut() {
                    h.kind = match (n, rng.below(3)) {
                        (0, 0) => HKind::P0,
                        (1, 0) => HKind::P1,
                        (2, 0) => HKind::P2,
                        _ => HKind::Req,
                    };
                }
            }
            ItemDesc::Mount { prefix, app } => assign_kinds(app, rng, prefix_params + n_params(prefix)),
        }
    }
}

// values next to the separator in byte value ('.' = '/' - 1, '0' = '/' + 1) at the end of a segment, and values longer than a machine word,
// are there for scans that find the next '/' a word at a time
const PARAM_VALUES: [&str; 44] = [
    "1", "abc", "users2", "user", "use", "%41", "a%2Fb", "x.y", "..", ".", "%E3%81%82", "a+b", "a:b", ":id", "~", "a;b", "a=b&c", "index.html", "A", "0", "-", "_", "%2e%2e", "a%20b",
    "v1.", "archive...", "a.", "x0", "0.", "abcdefg.", "abcdefgh.", "1234567",
    // escapes are data: a segment that decodes to control characters, DEL, C1 controls, a BOM or other non-printing characters is still a non-empty segment
    "line1%0Aline2", "%09tab", "%7F", "%1B%5B0m", "%C2%80", "a%C2%9Fb", "%EF%BB%BFbom", "%E2%80%8B", "%0D%0A", "%01", "%E2%80%AE", "%C2%A0",
];

#[derive(Clone, Debug)]
struct Req {
    method: &'static str,
    path: String,
    label: &'static str,
}

fn instantiate(route: &RouteT, rng: &mut Rng, statics: &[String]) -> Vec<String> {
    route
        .iter()
        .map(|s| match s {
            Seg::S(x) => x.clone(),
            Seg::P(_) => match rng.below(10) {
                0..=5 => rng.pick(&PARAM_VALUES).to_string(),
                6 | 7 if !statics.is_empty() => {
                    // a value that extends or truncates a static name used somewhere in the app
                    let s = rng.pick(statics).clone();
                    if rng.bool() { format!("{s}{}", rng.pick(&["2", "x", ".", "-a", "%41"])) } else if s.len() > 1 { s[..s.len() - 1].to_string() } else { format!("{s}{s}") }
                }
                8 => "v".repeat(200),
                _ => rng.string_over(b"abcxyz019._-", 1, 6),
            },
        })
        .collect()
}

fn join(segs: &[String]) -> String {
    if segs.is_empty() {
        "/".to_string()
    } else {
        let mut s = String::new();
        for x in segs {
            s.push('/');
            s.push_str(x);
        }
        s
    }
}

fn gen_requests(rng: &mut Rng, routes: &[FlatRoute], n_random: usize) -> Vec<Req> {
    let mut out = vec![];
    let statics: Vec<String> = {
        let mut v: Vec<String> = routes.iter().flat_map(|r| r.full.iter()).filter_map(|s| if let Seg::S(x) = s { Some(x.clone()) } else { None }).collect();
        v.sort();
        v.dedup();
        v
    };
    let mut shapes: Vec<RouteT> = vec![];
    for r in routes {
        if !shapes.contains(&r.full) {
            shapes.push(r.full.clone());
        }
    }
    for shape in &shapes {
        let segs = instantiate(shape, rng, &statics);
        let p = join(&segs);
        for m in web::METHODS {
            out.push(Req { method: m, path: p.clone(), label: "instance" });
        }
        // a second instantiation for param routes, GET + one random method only
        if n_params(shape) > 0 {
            let p2 = join(&instantiate(shape, rng, &statics));
            out.push(Req { method: "GET", path: p2.clone(), label: "instance" });
            out.push(Req { method: *rng.pick(&web::METHODS), path: p2, label: "instance" });
        }
        let m1 = *rng.pick(&["GET", "GET", "POST", "HEAD", "PUT", "DELETE", "PATCH"]);
        // trailing slashes
        out.push(Req { method: m1, path: if segs.is_empty() { "/".into() } else { format!("{p}/") }, label: "trailing-slash" });
        out.push(Req { method: m1, path: format!("{p}//"), label: "two-trailing-slashes" });
        // near misses on one segment
        if !segs.is_empty() {
            let i = rng.below(segs.len());
            let mut s = segs.clone();
            s[i] = format!("{}{}", s[i], rng.pick(&["2", "x", "s", ".", "-", "_", "%41"]));
            out.push(Req { method: m1, path: join(&s), label: "segment-extended" });
            let mut s = segs.clone();
            if s[i].len() > 1 {
                s[i].pop();
                out.push(Req { method: m1, path: join(&s), label: "segment-truncated" });
            }
            let mut s = segs.clone();
            s[i] = if s[i].chars().any(|c| c.is_ascii_lowercase()) { s[i].to_ascii_uppercase() } else { s[i].to_ascii_lowercase() };
            out.push(Req { method: m1, path: join(&s), label: "segment-case" });
            // extra / missing / empty segment
            let mut s = segs.clone();
            s.push(rng.pick(&["zzz", "a", "1", "users"]).to_string());
            out.push(Req { method: m1, path: join(&s), label: "extra-segment" });
            let mut s = segs.clone();
            s.pop();
            out.push(Req { method: m1, path: join(&s), label: "missing-segment" });
            let mut s = segs.clone();
            s.insert(i, String::new());
            out.push(Req { method: m1, path: join(&s), label: "empty-segment" });
            // cross-over: take the tail of another shape
            if shapes.len() > 1 {
                let other = rng.pick(&shapes).clone();
                let o = instantiate(&other, rng, &statics);
                let cut = rng.below(segs.len() + 1);
                let mut s: Vec<String> = segs[..cut].to_vec();
                s.extend(o.into_iter().skip(rng.below(other.len() + 1)));
                out.push(Req { method: m1, path: join(&s), label: "crossover" });
            }
        }
    }
    for _ in 0..n_random {
        let d = rng.below(5);
        let segs: Vec<String> = (0..d).map(|_| if rng.chance(3, 4) && !statics.is_empty() { rng.pick(&statics).clone() } else { rng.pick(&PARAM_VALUES).to_string() }).collect();
        out.push(Req { method: *rng.pick(&web::METHODS), path: join(&segs), label: "random" });
    }
    out
}

/* ------------------------------ reference ------------------------------ */

/// request path -> segments per the statement: one trailing slash ignored
pub fn path_segments(path: &str) -> Vec<String> {
    let p = path.strip_suffix('/').unwrap_or(path);
    if p.is_empty() {
        return vec![];
    }
    p[1..].split('/').map(|s| s.to_string()).collect()
}

fn matches(route: &RouteT, segs: &[String]) -> bool {
    route.len() == segs.len()
        && route.iter().zip(segs).all(|(r, s)| match r {
            Seg::S(x) => x == s,
            Seg::P(_) => !s.is_empty(),
        })
}

/// preference: static before param at the earliest differing position
fn better(a: &RouteT, b: &RouteT) -> bool {
    for (x, y) in a.iter().zip(b) {
        match (x, y) {
            (Seg::S(_), Seg::P(_)) => return true,
            (Seg::P(_), Seg::S(_)) => return false,
            _ => {}
        }
    }
    false
}

fn method_index(m: &str) -> Option<usize> {
    match m {
        "GET" | "HEAD" => Some(0),
        "PUT" => Some(1),
        "POST" => Some(2),
        "PATCH" => Some(3),
        "DELETE" => Some(4),
        _ => None,
    }
}

/// ideal dispatch: Some(route index) or None
pub fn ideal(routes: &[FlatRoute], method: &str, segs: &[String]) -> Option<usize> {
    let mi = method_index(method)?;
    let mut best: Option<usize> = None;
    for (i, r) in routes.iter().enumerate() {
        if r.method == mi && matches(&r.full, segs) {
            best = match best {
                None => Some(i),
                Some(b) => Some(if better(&r.full, &routes[b].full) { i } else { b }),
            };
        }
    }
    best
}

/// defect model `no-backtracking`: greedy descent of the per-method segment trie (static child first,
/// else the param child), never reconsidering an earlier choice. The trie of every method also
/// contains the (handler-less) nodes of every mount prefix, as the real tree does.
pub fn greedy(routes: &[FlatRoute], mounts: &[RouteT], method: &str, segs: &[String]) -> Option<usize> {
    let mi = method_index(method)?;
    // trie paths: Some(i) = route i, None = mount prefix
    let mut cands: Vec<(Option<usize>, &RouteT)> = routes.iter().enumerate().filter(|(_, r)| r.method == mi).map(|(i, r)| (Some(i), &r.full)).collect();
    cands.extend(mounts.iter().map(|m| (None, m)));
    for (pos, s) in segs.iter().enumerate() {
        let stat: Vec<(Option<usize>, &RouteT)> = cands.iter().copied().filter(|(_, r)| r.len() > pos && r[pos] == Seg::S(s.clone())).collect();
        if !stat.is_empty() {
            cands = stat;
            continue;
        }
        if s.is_empty() {
            return None;
        }
        let par: Vec<(Option<usize>, &RouteT)> = cands.iter().copied().filter(|(_, r)| r.len() > pos && matches!(r[pos], Seg::P(_))).collect();
        if par.is_empty() {
            return None;
        }
        cands = par;
    }
    cands.into_iter().find_map(|(i, r)| if r.len() == segs.len() { i } else { None })
}

fn expected_params(route: &RouteT, segs: &[String]) -> Option<Vec<String>> {
    let mut v = vec![];
    for (r, s) in route.iter().zip(segs) {
        if let Seg::P(_) = r {
            let d = percent_decode_strict(s.as_bytes()).ok()?;
            v.push(String::from_utf8(d).ok()?);
        }
    }
    Some(v)
}

/* ------------------------------ the check ------------------------------ */

#[derive(Debug, Clone, PartialEq)]
pub struct Obs {
    pub status: u16,
    pub body: Vec<u8>,
    pub handler: Option<(u32, Vec<String>)>,
    pub handler_events: usize,
    pub problem: Option<String>,
}

pub fn observe(router: &hook::Router, method: &str, path: &str, extra_headers: &[(&str, &str)]) -> (Obs, Vec<Ev>) {
    trace::clear();
    let mut hs = vec![("Host", "t")];
    hs.extend_from_slice(extra_headers);
    let bytes = web::build_request(method, path, &hs, b"");
    let step = web::oneshot(router, &bytes);
    let evs = trace::take();
    let handlers: Vec<(u32, Vec<String>)> = evs.iter().filter_map(|e| if let Ev::Handler(i, p) = e { Some((*i, p.clone())) } else { None }).collect();
    let mut obs = Obs { status: 0, body: vec![], handler: handlers.first().cloned(), handler_events: handlers.len(), problem: None };
    match &step {
        Step::Handled(b) | Step::Refused(b) => match parse_response(b, method == "HEAD") {
            Ok(r) => {
                obs.status = r.status;
                obs.body = r.body.clone();
                if r.consumed != b.len() {
                    obs.problem = Some(format!("{} bytes after the end of the response", b.len() - r.consumed));
                }
                if method == "HEAD" && b.len() != r.consumed {
                    obs.problem = Some("HEAD response carries a body".into());
                }
            }
            Err(e) => obs.problem = Some(format!("unparseable response: {e}")),
        },
        other => obs.problem = Some(format!("request ended as {}: {:?}", other.kind(), other)),
    }
    (obs, evs)
}

fn shape_hash(routes: &[FlatRoute]) -> u64 {
    let mut v: Vec<String> = routes
        .iter()
        .map(|r| format!("{}:{}", r.method, r.full.iter().map(|s| match s { Seg::S(_) => "s", Seg::P(_) => "p" }).collect::<String>()))
        .collect();
    v.sort();
    crate::rng::fnv(v.join("|").as_bytes())
}

pub fn run(args: &Args, rep: &mut Report) {
    let small = args.flag("small").is_some();
    crate::reqref::SMALL.store(small, std::sync::atomic::Ordering::Relaxed);
    if args.shard == 0 && args.start == 0 {
        witnesses(args, rep);
    }
    let mut case = args.shard;
    while case < args.budget {
        if case >= args.start {
            rep.begin(case);
            run_case(args, rep, case, small);
            rep.end(case);
        }
        case += args.nshards;
    }
}

fn order_fn(kind: u8, seed: u64) -> impl Fn(u32, usize) -> Vec<usize> {
    move |app_id, n| {
        let mut v: Vec<usize> = (0..n).collect();
        match kind {
            0 => {}
            1 => v.reverse(),
            _ => Rng::derive(seed, 77, app_id as u64 * 16 + kind as u64).shuffle(&mut v),
        }
        v
    }
}

/// fixed witnesses of the known findings, replayed on every run
fn witnesses(args: &Args, rep: &mut Report) {
    // C01-F1 no back-tracking: `/:id` + `/ab/x` + `/ab/y` (two children keep `/ab` uncompressed), GET /ab
    let h = |id| HandlerDesc { id, kind: HKind::Req, local: vec![] };
    let app = AppDesc {
        id: 1,
        fangs: vec![],
        items: vec![
            ItemDesc::Routes { route: vec![Seg::P("id".into())], methods: vec![(0, h(1))] },
            ItemDesc::Routes { route: vec![Seg::S("ab".into()), Seg::S("x".into())], methods: vec![(0, h(2))] },
            ItemDesc::Routes { route: vec![Seg::S("ab".into()), Seg::S("y".into())], methods: vec![(0, h(3))] },
        ],
    };
    let reqs = vec![Req { method: "GET", path: "/ab".into(), label: "witness" }, Req { method: "GET", path: "/ab/x".into(), label: "witness" }, Req { method: "GET", path: "/abc".into(), label: "witness" }];
    check_app(args, rep, u64::MAX, &app, &reqs, &[0]);
}

fn run_case(args: &Args, rep: &mut Report, case: u64, small: bool) {
    let mut rng = Rng::derive(args.seed, 1, case);
    let mut ids = IdGen::new();
    let mut app = gen_app(&mut rng, &mut ids, 0, 2, &vec![]);
    assign_kinds(&mut app, &mut rng, 0);
    let (routes, _) = flatten(&app);
    let reqs = gen_requests(&mut rng, &routes, if small { 3 } else { 12 });
    let reqs: Vec<Req> = if small { reqs.into_iter().step_by(4).collect() } else { reqs };
    let orders: &[u8] = if small { &[0, 2] } else { &[0, 1, 2, 3, 10] };
    check_app(args, rep, case, &app, &reqs, orders);
}

fn check_app(args: &Args, rep: &mut Report, case: u64, app: &AppDesc, reqs: &[Req], orders: &[u8]) {
    let app = app.clone();
    let (routes, apps) = flatten(&app);
    let mounts: Vec<RouteT> = apps.iter().map(|a| a.prefix.clone()).collect();
    let sh = shape_hash(&routes);
    let desc = json!({"case_index": case, "routes": routes.iter().map(|r| format!("{} {} -> h{}", ROUTE_METHODS[r.method], route_literal(&r.full), r.handler.id)).collect::<Vec<_>>()});

    for &ok in orders {
        // order 10 = the real tuple API `Ohkami::new((r1, .., rn))` where the item list allows it
        if ok == 10 && (app.items.len() > 12 || !(app.items.iter().all(|i| matches!(i, ItemDesc::Routes { .. })) || app.items.iter().all(|i| matches!(i, ItemDesc::Mount { .. })))) {
            continue;
        }
        let built = catch(|| {
            if ok == 10 {
                rep_tuple_hit();
                hook::Router::new(build_with_tuple_api(&app, &order_fn(2, args.seed ^ case), true).unwrap())
            } else {
                hook::Router::new(build(&app, &order_fn(ok, args.seed ^ case)))
            }
        });
        if ok == 10 {
            rep.count("apps_built_via_tuple_api");
        }
        let router = match built {
            Ok(r) => r,
            Err(p) => {
                rep.eval();
                rep.violation("C01/valid-config-refused", &format!("a route set without duplicates or overlapping mounts was refused at start-up (order {ok}): {p}"), json!({"app": desc, "order": ok, "panic": p}));
                continue;
            }
        };
        rep.count("apps_built");
        rep.count_n("routes_registered_below_a_mount_prefix", ROUTES_BELOW_MOUNT.swap(0, std::sync::atomic::Ordering::Relaxed));
        for rq in reqs {
            rep.eval();
            let segs = path_segments(&rq.path);
            // a path whose escapes do not decode to UTF-8 is a malformed request: whether the reader refuses it (400) is C02's
            // question, not a routing outcome
            if crate::httpref::percent_decode_strict(rq.path.as_bytes()).ok().and_then(|b| String::from_utf8(b).ok()).is_none() {
                rep.count("skipped:undecodable-path");
                continue;
            }
            let exp = ideal(&routes, rq.method, &segs);
            let gre = greedy(&routes, &mounts, rq.method, &segs);
            let (obs, _) = observe(&router, rq.method, &rq.path, &[]);
            // expected observation
            let exp_handler = exp.and_then(|i| expected_params(&routes[i].full, &segs).map(|ps| (routes[i].handler.id, ps)));
            let class = classify(&routes, rq, &segs, exp);
            rep.count(&format!("class:{class}"));
            rep.distinct(&format!("{sh}:{class}"));
            if exp.is_some() && exp_handler.is_none() {
                // non-UTF-8 / malformed escape in a param: C07's territory
                rep.count("skipped:undecodable-param");
                continue;
            }
            let verdict = judge(rq, &obs, &exp_handler, exp.map(|i| routes[i].handler.kind));
            if let Some(why) = verdict {
                // attribution by defect model
                let gre_handler = gre.and_then(|i| expected_params(&routes[i].full, &segs).map(|ps| (routes[i].handler.id, ps)));
                let sig = if exp != gre && judge(rq, &obs, &gre_handler, gre.map(|i| routes[i].handler.kind)).is_none() { "C01/no-backtracking".to_string() } else { format!("C01/unexplained:{}", why.0) };
                rep.violation(&sig, &format!("{} {} -> {} (expected {})", rq.method, rq.path, why.1, describe(&exp_handler)), json!({"case_index": case, "app": desc, "order": ok, "method": rq.method, "path": rq.path, "label": rq.label,
                    "expected": describe(&exp_handler), "observed": {"status": obs.status, "body": crate::rng::show(&obs.body), "handler": format!("{:?}", obs.handler), "problem": obs.problem}}));
            }
            if rep.want_sample() && exp.is_some() && rq.label != "instance" {
                rep.sample(json!({"routes": desc["routes"], "request": format!("{} {}", rq.method, rq.path), "class": class, "expected": describe(&exp_handler), "observed_status": obs.status, "observed_handler": format!("{:?}", obs.handler)}));
            }
        }
    }
}

fn describe(h: &Option<(u32, Vec<String>)>) -> String {
    match h {
        Some((i, p)) => format!("handler h{i} with params {p:?}"),
        None => "404, no handler".into(),
    }
}

fn classify(routes: &[FlatRoute], rq: &Req, segs: &[String], exp: Option<usize>) -> &'static str {
    if rq.method == "OPTIONS" {
        return "options";
    }
    match exp {
        Some(i) => {
            let r = &routes[i];
            let mi = r.method;
            let other_match = routes.iter().enumerate().any(|(j, o)| j != i && o.method == mi && matches(&o.full, segs));
            if rq.method == "HEAD" {
                "head"
            } else if other_match {
                "static-over-param-preference"
            } else if rq.label == "trailing-slash" {
                "trailing-slash-hit"
            } else if r.apps.len() > 1 {
                if n_params(&r.full) > 0 { "nested-param-hit" } else { "nested-hit" }
            } else if n_params(&r.full) > 0 {
                "param-hit"
            } else {
                "static-hit"
            }
        }
        None => match rq.label {
            "segment-extended" | "segment-truncated" => "prefix-near-miss",
            "empty-segment" | "two-trailing-slashes" => "empty-segment-miss",
            "instance" | "trailing-slash" => "method-miss",
            "extra-segment" | "missing-segment" => "depth-miss",
            _ => "miss",
        },
    }
}

/// None = agrees with the expectation; Some((kind, description)) otherwise
fn judge(rq: &Req, obs: &Obs, exp: &Option<(u32, Vec<String>)>, kind: Option<HKind>) -> Option<(&'static str, String)> {
    if let Some(p) = &obs.problem {
        return Some(("transport", p.clone()));
    }
    if rq.method == "OPTIONS" {
        if obs.handler_events > 0 {
            return Some(("options-ran-handler", format!("user handler ran for OPTIONS: {:?}", obs.handler)));
        }
        return None;
    }
    match exp {
        None => {
            if obs.handler_events > 0 {
                Some(("handler-on-miss", format!("handler {:?} ran although no route matches", obs.handler)))
            } else if obs.status != 404 {
                Some(("status-on-miss", format!("status {} instead of 404", obs.status)))
            } else {
                None
            }
        }
        Some((id, params)) => {
            if obs.handler_events != 1 {
                return Some(("handler-count", format!("{} handler events, status {}", obs.handler_events, obs.status)));
            }
            let (oid, ops) = obs.handler.clone().unwrap();
            if oid != *id {
                return Some(("wrong-handler", format!("handler h{oid} ran")));
            }
            let params_expected: Vec<String> = match kind {
                Some(HKind::P0) => vec![],
                _ => params.clone(),
            };
            if ops != params_expected {
                return Some(("wrong-params", format!("handler h{oid} saw params {ops:?}")));
            }
            if obs.status != 200 {
                return Some(("status-on-hit", format!("status {}", obs.status)));
            }
            if rq.method == "HEAD" {
                if !obs.body.is_empty() {
                    return Some(("head-body", "HEAD response has a body".into()));
                }
            } else if obs.body != format!("h{id}").as_bytes() {
                return Some(("wrong-body", format!("body {}", crate::rng::show(&obs.body))));
            }
            None
        }
    }
}

fn rep_tuple_hit() {}
