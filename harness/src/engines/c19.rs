//! C19 – static directory mounts: generated directory trees on disk, every request path compared with
//! a map computed from the generator's own tree.

use crate::httpref::parse_response;
use crate::report::{catch, Args, Report};
use crate::rng::Rng;
use crate::web::{self, Step};
use ohkami::__verif__ as hook;
use ohkami::Route;
use serde_json::json;
use std::collections::BTreeMap;
use std::path::PathBuf;

/// extension -> media type (IANA registrations), written independently of ohkami_lib::mime
const MIME: [(&str, &str); 16] = [
    ("txt", "text/plain"), ("html", "text/html"), ("css", "text/css"), ("js", "text/javascript"), ("xml", "text/xml"), ("csv", "text/csv"), ("tsv", "text/tab-separated-values"),
    ("vcard", "text/vcard"), ("jpeg", "image/jpeg"), ("gif", "image/gif"), ("png", "image/png"), ("svg", "image/svg+xml"), ("woff", "font/woff"), ("woff2", "font/woff2"),
    ("json", "application/json"), ("pdf", "application/pdf"),
];
const STEMS: [&str; 23] = ["index", "app", "main", "a", "ab", "abc", "A", "x.y", "a-b", "a_b", "v1", "data2", "README", "app.min", "guide.txt", "page.js", "data.json", "x.html", "doc.css", "index.html",
    // consecutive dots inside a name are ordinary characters of a name (only a whole segment `..` means "parent")
    "notes..v2", "a...b", "release-1..2"];
const DIRS: [&str; 10] = ["assets", "css", "js", "img", "a", "docs", "v1", "sub.dir", "v1..2", "x...y"];

#[derive(Clone, Debug)]
struct FileDesc {
    rel: Vec<String>,
    content: Vec<u8>,
    ext: &'static str,
}

fn scratch_root() -> PathBuf {
    let base = std::env::var("VH_SCRATCH").map(PathBuf::from).unwrap_or_else(|_| {
        let mut p = std::env::current_exe().unwrap();
        p.pop();
        p.push("vh-scratch");
        p
    });
    let _ = std::fs::create_dir_all(&base);
    base
}

fn gen_tree(rng: &mut Rng, small: bool) -> Vec<FileDesc> {
    let n = if small { rng.range(1, 4) } else { *rng.pick_weighted(&[(1, 0usize), (3, 3), (4, 8), (2, 25)]) };
    let n = if n == 0 { 0 } else { rng.range(1, n) };
    let mut files: Vec<FileDesc> = vec![];
    for _ in 0..n {
        let depth = *rng.pick_weighted(&[(4, 0usize), (4, 1), (2, 2), (1, 4)]);
        let mut rel: Vec<String> = (0..depth).map(|_| rng.pick(&DIRS).to_string()).collect();
        let (ext, _) = *rng.pick(&MIME);
        let stem = if rng.chance(1, 5) { "index" } else { *rng.pick(&STEMS) };
        rel.push(format!("{stem}.{ext}"));
        if files.iter().any(|f| f.rel == rel) {
            continue;
        }
        // a file name that is also a directory name of another entry cannot exist on disk
        if files.iter().any(|f| f.rel.len() > rel.len() && f.rel[..rel.len()] == rel[..]) || files.iter().any(|f| rel.len() > f.rel.len() && rel[..f.rel.len()] == f.rel[..]) {
            continue;
        }
        let text = MIME.iter().find(|(e, _)| *e == ext).unwrap().1.starts_with("text/");
        let content: Vec<u8> = match rng.below(6) {
            0 => vec![],
            1 if !text && !small => { let k = 1_000_000; let mut v = rng.bytes(4096); v.resize(k, 0x5a); v }
            _ if text => format!("/* {} */ {}", rel.join("/"), rng.unicode_string(30)).into_bytes(),
            _ => { let k = rng.range(1, 600); rng.bytes(k) }
        };
        files.push(FileDesc { rel, content, ext });
    }
    files
}

/// the map path -> (file index) per the statement; None if the tree's route derivation is ambiguous under this configuration
fn expected_map(files: &[FileDesc], mount: &str, omit: &[&str]) -> Option<BTreeMap<String, usize>> {
    let mut m: BTreeMap<String, usize> = BTreeMap::new();
    let base = mount.trim_end_matches('/');
    let mut put = |segs: Vec<String>, i: usize, m: &mut BTreeMap<String, usize>| -> bool {
        let p = if segs.is_empty() { if base.is_empty() { "/".to_string() } else { base.to_string() } } else { format!("{base}/{}", segs.join("/")) };
        m.insert(p, i).is_none()
    };
    for (i, f) in files.iter().enumerate() {
        let mut segs = f.rel.clone();
        let name = segs.last().unwrap().clone();
        if name == "index.html" {
            if !omit.contains(&"html") && !put(segs.clone(), i, &mut m) {
                return None;
            }
            segs.pop();
            // the directory path; the rule for omitted extensions then applies to the directory name, as documented by the code path:
            // a directory called `x.html` under omit [html] would be shortened too (excluded by the generator's names)
            if !put(segs, i, &mut m) {
                return None;
            }
            continue;
        }
        if let Some(ext) = omit.iter().find(|e| name.ends_with(&format!(".{e}"))) {
            let l = segs.len() - 1;
            segs[l] = name[..name.len() - ext.len() - 1].to_string();
        }
        if !put(segs, i, &mut m) {
            return None;
        }
    }
    Some(m)
}

fn leak(s: String) -> &'static str {
    Box::leak(s.into_boxed_str())
}

pub fn run(args: &Args, rep: &mut Report) {
    let small = args.flag("small").is_some();
    let root = scratch_root();
    let mut case = args.shard;
    while case < args.budget {
        if case >= args.start {
            rep.begin(case);
            let mut rng = Rng::derive(args.seed, 19, case);
            // every fourth tree lives below a directory whose name starts with a dot (~/.local/share/.., /srv/.releases/.., a tempdir):
            // what is served is a matter of the mounted directory's content, not of where it is on the disk
            let dir = if case % 4 == 1 { root.join(format!(".hidden-{}", std::process::id())).join(format!("c19-{}-{}", args.shard, case)) } else { root.join(format!("c19-{}-{}-{}", std::process::id(), args.shard, case)) };
            if case % 4 == 1 { rep.count("trees_below_a_dot_named_ancestor") }
            one(rep, case, &mut rng, &dir, small);
            let _ = std::fs::remove_dir_all(&dir);
            rep.end(case);
        }
        case += args.nshards;
    }
}

fn one(rep: &mut Report, case: u64, rng: &mut Rng, dir: &PathBuf, small: bool) {
    let files = gen_tree(rng, small);
    let _ = std::fs::remove_dir_all(dir);
    std::fs::create_dir_all(dir.join("public")).unwrap();
    // a file outside the mounted directory
    std::fs::write(dir.join("secret.txt"), b"TOP SECRET outside the directory").unwrap();
    for f in &files {
        let p = dir.join("public").join(f.rel.join("/"));
        std::fs::create_dir_all(p.parent().unwrap()).unwrap();
        std::fs::write(&p, &f.content).unwrap();
    }
    let mount = *rng.pick(&["/", "/static", "/a/b", "/public"]);
    let omit: Vec<&'static str> = match rng.below(4) { 0 => vec!["html"], 1 => vec!["html", "js"], 2 => vec!["css", "html", "json"], _ => vec![] };
    let exp = match expected_map(&files, mount, &omit) {
        Some(m) => m,
        None => {
            rep.count("skipped:ambiguous-tree");
            return;
        }
    };
    // with a mount at "/" an ordinary route next to it must not collide with a file route
    let with_api = rng.bool() && !exp.keys().any(|k| k.starts_with("/api"));
    // how the directory is named is the user's business: its plain path, a path with `.`/`..` in it, or a path through a symbolic link
    // that lives at another depth (`/srv/www/current -> releases/v2/public`) - the mounted directory is the same
    let dpath = match rng.below(5) {
        0 => {
            std::fs::create_dir_all(dir.join("detour").join("deeper")).unwrap();
            rep.count("mount_path:with-dot-dot");
            dir.join("detour").join("deeper").join("..").join("..").join("public")
        }
        1 => {
            std::fs::create_dir_all(dir.join("srv").join("www")).unwrap();
            let link = dir.join("srv").join("www").join("current");
            match std::os::unix::fs::symlink("../../public", &link) {
                Ok(()) => { rep.count("mount_path:through-deeper-symlink"); link }
                Err(_) => dir.join("public"),
            }
        }
        2 if files.iter().any(|f| f.rel.len() > 1) => {
            // a link next to `public` whose target is a level up from what it names: `pub2 -> public/<d>/..`
            let d = files.iter().find(|f| f.rel.len() > 1).map(|f| f.rel[0].clone()).unwrap();
            let link = dir.join("pub2");
            match std::os::unix::fs::symlink(format!("public/{d}/.."), &link) {
                Ok(()) => { rep.count("mount_path:through-symlink-with-dot-dot"); link }
                Err(_) => dir.join("public"),
            }
        }
        _ => { rep.count("mount_path:plain"); dir.join("public") }
    };
    let dpath = leak(dpath.to_string_lossy().to_string());
    let omit2 = omit.clone();
    let built = catch(|| {
        let d = mount.Dir(dpath);
        let d = match omit2.len() { 0 => d, 1 => d.omit_extensions(["html"]), 2 => d.omit_extensions([".html", "js"]), _ => d.omit_extensions(["css", "html", "json"]) };
        let mut items = vec![hook::Item::Dir(d)];
        if with_api {
            items.push(hook::Item::Handlers("/api/ping".GET(|| async { "pong" })));
        }
        hook::Router::new(hook::assemble(None, items))
    });
    let desc = json!({"mount": mount, "omit_extensions": omit, "files": files.iter().map(|f| format!("{} ({} bytes)", f.rel.join("/"), f.content.len())).collect::<Vec<_>>()});
    let router = match built {
        Ok(r) => r,
        Err(p) => {
            rep.eval();
            rep.violation("C19/valid-tree-refused", &format!("a directory of supported, unambiguous files was refused at start-up: {p}"), json!({"case_index": case, "tree": desc}));
            return;
        }
    };
    rep.count("trees_mounted");
    // snapshot semantics: change the disk after start-up
    if let Some(f) = files.first() {
        let _ = std::fs::write(dir.join("public").join(f.rel.join("/")), b"MODIFIED AFTER START-UP");
    }
    let _ = std::fs::write(dir.join("public").join("added-later.txt"), b"added after start-up");
    // request set
    let base = mount.trim_end_matches('/');
    let mut reqs: Vec<(String, &'static str)> = vec![];
    for p in exp.keys() {
        reqs.push((p.clone(), "file-or-index"));
        reqs.push((format!("{}/", if p == "/" { "" } else { p }), "trailing-slash"));
        // only ONE trailing slash is ignored (C01): two or three are doubled separators, i.e. another path
        reqs.push((format!("{}//", if p == "/" { "" } else { p }), "doubled-trailing-slash"));
        reqs.push((format!("{}///", if p == "/" { "" } else { p }), "doubled-trailing-slash"));
        reqs.push((format!("{p}x"), "name-extended"));
        if p.len() > 1 { reqs.push((p[..p.len() - 1].to_string(), "name-truncated")) }
        reqs.push((p.to_ascii_uppercase(), "case-variant"));
        reqs.push((p.to_ascii_lowercase(), "case-variant"));
    }
    for f in &files {
        let full = format!("{base}/{}", f.rel.join("/"));
        reqs.push((full.clone(), "full-name-with-extension"));
        if let Some((stem, _)) = full.rsplit_once('.') { reqs.push((stem.to_string(), "without-extension")) }
        for d in 1..f.rel.len() {
            reqs.push((format!("{base}/{}", f.rel[..d].join("/")), "directory"));
        }
        reqs.push((format!("{base}/{}/../{}", f.rel[..f.rel.len() - 1].join("/"), f.rel.last().unwrap()).replace("//", "/"), "dot-dot-inside"));
        reqs.push((format!("{base}/./{}", f.rel.join("/")), "dot-segment"));
        reqs.push((format!("{base}//{}", f.rel.join("/")), "double-slash"));
        reqs.push((format!("{base}/{}", f.rel.join("%2F")), "encoded-slash"));
    }
    for p in [format!("{base}/../secret.txt"), format!("{base}/%2e%2e/secret.txt"), format!("{base}/..%2Fsecret.txt"), "/secret.txt".to_string(), format!("{base}/secret.txt"), format!("{base}/added-later.txt"),
              format!("{base}/added-later"), base.to_string() + "/", "/".to_string(), format!("{base}/nope.html"), format!("{base}/index"), format!("{base}/index.html"), "/api/ping".to_string()] {
        reqs.push((if p.is_empty() { "/".into() } else { p }, "probe"));
    }
    if small {
        reqs.truncate(12);
    }
    for (path, class) in reqs {
        for method in if class == "file-or-index" { &["GET", "HEAD", "POST", "DELETE"][..] } else { &["GET"][..] } {
            rep.eval();
            rep.count(&format!("class:{class}"));
            let bytes = web::build_request(method, &path, &[("Host", "t")], b"");
            let step = web::oneshot(&router, &bytes);
            let cj = |extra: serde_json::Value| json!({"case_index": case, "tree": desc, "request": format!("{method} {path}"), "detail": extra});
            let resp = match &step {
                Step::Handled(b) | Step::Refused(b) => match parse_response(b, *method == "HEAD") {
                    Ok(r) => r,
                    Err(e) => { rep.violation("C19/malformed-response", &e, cj(json!(null))); continue }
                },
                other => { rep.violation(&format!("C19/{}", other.kind()), &format!("{method} {path} ended as {:?}", other), cj(json!(null))); continue }
            };
            // reference: one trailing slash is ignored by the router (C01)
            let key = { let p = path.strip_suffix('/').unwrap_or(&path); if p.is_empty() { "/".to_string() } else { p.to_string() } };
            let hit = if path.contains("//") || path.ends_with("//") { None } else { exp.get(&key).copied() };
            let api = with_api && key == "/api/ping";
            match (hit, *method) {
                (Some(i), "GET") | (Some(i), "HEAD") => {
                    let f = &files[i];
                    let mime = MIME.iter().find(|(e, _)| *e == f.ext).unwrap().1;
                    rep.distinct(&format!("ext:{}", f.ext));
                    rep.distinct(&format!("{}:{}:{class}:{method}:d{}:{}", mount, omit.join("+"), f.rel.len(), f.ext));
                    if resp.status != 200 {
                        rep.violation(&format!("C19/file-not-served:{class}"), &format!("{method} {path} -> {} although {} is under the directory", resp.status, f.rel.join("/")), cj(json!({"status": resp.status})));
                    } else if resp.get("content-type").map(|c| c == mime || c.starts_with(&format!("{mime};"))) != Some(true) {
                        rep.violation("C19/content-type", &format!("{method} {path}: Content-Type {:?}, extension {} is {mime}", resp.get("content-type"), f.ext), cj(json!(null)));
                    } else if *method == "GET" && resp.body != f.content {
                        rep.violation("C19/bytes-differ", &format!("GET {path}: {} bytes served, file had {} bytes at start-up{}", resp.body.len(), f.content.len(), if resp.body == b"MODIFIED AFTER START-UP" { " (bytes written after start-up were served)" } else { "" }), cj(json!(null)));
                    } else if *method == "HEAD" && (resp.get("content-length") != Some(&f.content.len().to_string())) {
                        rep.violation("C19/head-length", &format!("HEAD {path}: Content-Length {:?}, file has {}", resp.get("content-length"), f.content.len()), cj(json!(null)));
                    } else {
                        rep.count("files_served_identically");
                        if rep.want_sample() && class != "file-or-index" {
                            rep.sample(json!({"mount": mount, "omit": omit, "file": f.rel.join("/"), "request": format!("{method} {path}"), "status": 200, "content_type": resp.get("content-type")}));
                        }
                    }
                }
                _ if api && *method == "GET" => {
                    if resp.status != 200 || resp.body != b"pong" { rep.violation("C19/ordinary-route-broken", &format!("GET /api/ping -> {}", resp.status), cj(json!(null))) }
                }
                _ => {
                    rep.distinct(&format!("miss:{class}"));
                    if resp.status != 404 {
                        let leaked = resp.body.windows(10).any(|w| w == b"TOP SECRET");
                        rep.violation(&format!("C19/served-something-else:{class}"), &format!("{method} {path} -> {} ({} bytes{}) although nothing is mounted there", resp.status, resp.body.len(), if leaked { ", the file OUTSIDE the directory" } else { "" }), cj(json!({"status": resp.status})));
                    } else {
                        rep.count("misses_404");
                    }
                }
            }
        }
    }
}
