//! C09 – URL-encoded serialisation round trip and decoding rule.

use crate::httpref::percent_decode_strict;
use crate::report::{catch, Args, Report};
use crate::rng::Rng;
use ohkami::__verif__ as hook;
use ohkami_lib::serde_urlencoded::{from_bytes, to_string};
use serde::{de::DeserializeOwned, Deserialize, Serialize};
use serde_json::json;
use std::collections::BTreeMap;
use std::fmt::Debug;

#[derive(Serialize, Deserialize, PartialEq, Debug, Clone)]
pub struct F<T> {
    pub x: T,
}
#[derive(Serialize, Deserialize, PartialEq, Debug, Clone, Copy)]
pub enum Color {
    Red,
    #[serde(rename = "dark green")]
    DarkGreen,
    Blue2,
}
#[derive(Serialize, Deserialize, PartialEq, Debug, Clone)]
pub struct Meters(pub u32);
#[derive(Serialize, Deserialize, PartialEq, Debug, Clone)]
pub struct Label(pub String);

#[derive(Serialize, Deserialize, PartialEq, Debug, Clone)]
pub struct Ver(pub u8, pub u8, pub u8);
#[derive(Serialize, Deserialize, PartialEq, Debug, Clone)]
pub struct Seqs { pub version: Ver, pub name: String, pub tags: Vec<String>, pub pair: (u8, String), pub ids: Vec<u32>, pub last: Ver }
#[derive(Serialize, Deserialize, PartialEq, Debug, Clone)]
pub struct Seqs2 { pub tags: Vec<String>, pub version: Ver, pub ids: Vec<u32>, pub pair: (u8, String), pub more: Vec<String> }

#[derive(Serialize, Deserialize, PartialEq, Debug, Clone)]
pub struct Mixed {
    pub id: u64,
    pub name: String,
    pub ratio: f64,
    pub on: bool,
    pub color: Color,
    pub nick: Option<String>,
    pub count: Option<i32>,
    pub dist: Meters,
    pub initial: char,
    pub tags: Vec<String>,
    pub delta: i16,
}

fn gen_string(rng: &mut Rng) -> String {
    match rng.below(8) {
        0 => String::new(),
        1 => "a&b=c%d+e,f".into(),
        2 => "狼 ohkami 🐺".into(),
        3 => rng.unicode_string(12),
        4 => " leading and trailing ".into(),
        5 => "%41".into(),
        6 => rng.string_over(b"&=%+,;/?#[]@!$'()* ", 1, 6),
        _ => rng.string_over(b"abcXYZ019", 1, 10),
    }
}
fn gen_f64(rng: &mut Rng) -> f64 {
    match rng.below(12) {
        0 => 0.0,
        1 => -0.0,
        2 => f64::MIN_POSITIVE,
        3 => 5e-324,
        4 => f64::MAX,
        5 => f64::MIN,
        6 => f64::INFINITY,
        7 => f64::NEG_INFINITY,
        8 => f64::NAN,
        9 => 0.1 + 0.2,
        10 => (rng.u64() as f64) / 1e3,
        _ => f64::from_bits(rng.u64()),
    }
}
fn gen_f32(rng: &mut Rng) -> f32 {
    match rng.below(8) {
        0 => 0.0,
        1 => -0.0,
        2 => f32::MIN_POSITIVE,
        3 => 1e-45,
        4 => f32::MAX,
        5 => f32::NAN,
        6 => 16777217.0,
        _ => f32::from_bits(rng.u64() as u32),
    }
}
fn gen_char(rng: &mut Rng) -> char {
    match rng.below(4) {
        0 => *rng.pick(&['&', '=', '%', '+', ',', ' ', '#', '?', '/']),
        _ => rng.unicode_char(),
    }
}
macro_rules! gen_int {
    ($rng:expr, $t:ty) => {{
        match $rng.below(6) {
            0 => <$t>::MAX,
            1 => <$t>::MIN,
            2 => 0 as $t,
            3 => <$t>::MAX - 1,
            4 => (<$t>::MIN).wrapping_add(1),
            _ => $rng.u64() as $t,
        }
    }};
}

/// value equality with floats compared bitwise (NaN == NaN of any payload)
fn same<T: Serialize>(a: &T, b: &T) -> bool {
    fn norm(v: serde_json::Value) -> serde_json::Value {
        v
    }
    // serde_json maps NaN/inf to null; compare those through their Debug form instead
    match (serde_json::to_value(a), serde_json::to_value(b)) {
        (Ok(x), Ok(y)) => norm(x) == norm(y),
        _ => false,
    }
}

fn round_trip<T: Serialize + DeserializeOwned + PartialEq + Debug>(rep: &mut Report, case: u64, ty: &str, vclass: &str, v: &T, eq: &dyn Fn(&T, &T) -> bool) {
    rep.eval();
    rep.count("round_trips");
    rep.distinct(&format!("rt:{ty}:{vclass}"));
    let text = match catch(|| to_string(v)) {
        Ok(Ok(t)) => t,
        Ok(Err(_)) => {
            rep.count("serializer_refused");
            return;
        }
        Err(p) => {
            rep.violation(&format!("C09/ser-panic@{}", crate::report::panic_site(&p)), &format!("to_string({ty}) panicked: {p}"), json!({"case_index": case, "type": ty, "value": format!("{v:?}")}));
            return;
        }
    };
    let back = catch(|| from_bytes::<T>(text.as_bytes()));
    // known finding C09-F1, by defect model: the format writes Some(""), None, [""] and [] all as an empty section, and what is read
    // back is the "smaller" value. Exactly that - and nothing else that happens to involve an empty string - is attributed to it.
    let model = format!("{v:?}").replace("Some(\"\")", "None").replace("[\"\"]", "[]");
    let ambiguous = vclass.contains("empty-string-in-option-or-seq");
    match back {
        Ok(Ok(w)) if eq(v, &w) => rep.count("round_trip_equal"),
        Ok(Ok(w)) => {
            let sig = if ambiguous && format!("{w:?}") == model { "C09/empty-string-ambiguity".to_string() } else { format!("C09/round-trip-differs:{ty}") };
            rep.violation(&sig, &format!("{ty}: {v:?} -> {text:?} -> {w:?}"), json!({"case_index": case, "type": ty, "value": format!("{v:?}"), "text": text, "decoded": format!("{w:?}")}));
        }
        Ok(Err(e)) => {
            let sig = format!("C09/round-trip-rejected:{ty}");
            rep.violation(&sig, &format!("{ty}: {v:?} -> {text:?} -> Err({e})"), json!({"case_index": case, "type": ty, "value": format!("{v:?}"), "text": text, "error": e.to_string()}));
        }
        Err(p) => rep.violation(&format!("C09/de-panic@{}", crate::report::panic_site(&p)), &format!("from_bytes({ty}) panicked on its own output {text:?}: {p}"), json!({"case_index": case, "type": ty, "text": text})),
    }
    if rep.want_sample() && (text.contains('%') || text.contains(',')) {
        rep.sample(json!({"type": ty, "value": format!("{v:?}"), "encoded": text}));
    }
}

fn peq<T: PartialEq>(a: &T, b: &T) -> bool {
    a == b
}

fn rt_case(rep: &mut Report, case: u64, rng: &mut Rng) {
    macro_rules! ints {
        ($( $t:ty ),*) => { $( { let v = gen_int!(rng, $t); let c = if v == <$t>::MAX { "max" } else if v == <$t>::MIN { "min" } else { "other" }; round_trip(rep, case, stringify!($t), c, &F { x: v }, &peq); } )* };
    }
    ints!(i8, i16, i32, i64, u8, u16, u32, u64, usize, isize);
    round_trip(rep, case, "bool", "b", &F { x: rng.bool() }, &peq);
    let f = gen_f64(rng);
    round_trip(rep, case, "f64", if f.is_nan() { "nan" } else if f.is_infinite() { "inf" } else if f == 0.0 { "zero" } else if f.abs() < 1e-300 { "subnormal" } else { "finite" }, &F { x: f }, &|a: &F<f64>, b: &F<f64>| a.x.to_bits() == b.x.to_bits() || (a.x.is_nan() && b.x.is_nan()));
    let f = gen_f32(rng);
    round_trip(rep, case, "f32", if f.is_nan() { "nan" } else if f == 0.0 { "zero" } else { "finite" }, &F { x: f }, &|a: &F<f32>, b: &F<f32>| a.x.to_bits() == b.x.to_bits() || (a.x.is_nan() && b.x.is_nan()));
    let c = gen_char(rng);
    round_trip(rep, case, "char", if c.is_ascii_alphanumeric() { "alnum" } else if c.is_ascii() { "ascii-punct" } else { "non-ascii" }, &F { x: c }, &peq);
    let s = gen_string(rng);
    let sclass = if s.is_empty() { "empty" } else if s.is_ascii() { if s.bytes().all(|b| b.is_ascii_alphanumeric()) { "alnum" } else { "reserved" } } else { "unicode" };
    round_trip(rep, case, "String", sclass, &F { x: s.clone() }, &peq);
    round_trip(rep, case, "Label", sclass, &F { x: Label(s.clone()) }, &peq);
    let o: Option<String> = if rng.chance(1, 3) { None } else { Some(gen_string(rng)) };
    round_trip(rep, case, "Option<String>", match &o { None => "none", Some(s) if s.is_empty() => "empty-string-in-option-or-seq", _ => "some" }, &F { x: o }, &peq);
    let oi: Option<u32> = if rng.bool() { None } else { Some(gen_int!(rng, u32)) };
    round_trip(rep, case, "Option<u32>", if oi.is_some() { "some" } else { "none" }, &F { x: oi }, &peq);
    round_trip(rep, case, "Color", "enum", &F { x: *rng.pick(&[Color::Red, Color::DarkGreen, Color::Blue2]) }, &peq);
    round_trip(rep, case, "Meters", "newtype", &F { x: Meters(gen_int!(rng, u32)) }, &peq);
    let n = rng.below(4);
    let vs: Vec<String> = (0..n).map(|_| gen_string(rng)).collect();
    let vclass = if vs.len() == 1 && vs[0].is_empty() { "empty-string-in-option-or-seq".to_string() } else if vs.iter().any(|s| s.is_empty()) { format!("len{n}-with-empty-elements") } else { format!("len{n}") };
    round_trip(rep, case, "Vec<String>", &vclass, &F { x: vs.clone() }, &peq);
    let vi: Vec<u32> = (0..rng.below(4)).map(|_| gen_int!(rng, u32)).collect();
    round_trip(rep, case, "Vec<u32>", &format!("len{}", vi.len()), &F { x: vi }, &peq);
    let t: (u8, String) = (gen_int!(rng, u8), { let s = gen_string(rng); if s.is_empty() { "t".into() } else { s } });
    round_trip(rep, case, "(u8,String)", "tuple", &F { x: t }, &peq);
    // string map with arbitrary keys
    let mut m: BTreeMap<String, String> = BTreeMap::new();
    for _ in 0..rng.below(4) {
        let k = gen_string(rng);
        if !k.is_empty() {
            m.insert(k, gen_string(rng));
        }
    }
    round_trip(rep, case, "BTreeMap<String,String>", &format!("len{}", m.len()), &m, &peq);
    // a struct of many field types
    let tags: Vec<String> = (0..rng.below(3)).map(|_| { let s = gen_string(rng); if s.is_empty() { "x".into() } else { s } }).collect();
    let mx = Mixed { id: gen_int!(rng, u64), name: gen_string(rng), ratio: { let f = gen_f64(rng); if f.is_nan() { 1.5 } else { f } }, on: rng.bool(), color: *rng.pick(&[Color::Red, Color::DarkGreen]),
        nick: if rng.bool() { None } else { Some({ let s = gen_string(rng); if s.is_empty() { "n".into() } else { s } }) }, count: if rng.bool() { None } else { Some(gen_int!(rng, i32)) }, dist: Meters(gen_int!(rng, u32)),
        initial: gen_char(rng), tags, delta: gen_int!(rng, i16) };
    round_trip(rep, case, "Mixed", "struct", &mx, &|a: &Mixed, b: &Mixed| a.ratio.to_bits() == b.ratio.to_bits() && { let mut c = b.clone(); c.ratio = a.ratio; *a == c });
    // several sequence-like fields in one value (tuple struct, Vec, tuple, Vec again): state a writer keeps between elements must not
    // travel from one field to the next, whichever kind comes first
    let strs = |rng: &mut Rng, n: usize| -> Vec<String> { (0..n).map(|_| { let s = gen_string(rng); if s.is_empty() { "x".into() } else { s } }).collect() };
    let sq = Seqs { version: Ver(gen_int!(rng, u8), gen_int!(rng, u8), gen_int!(rng, u8)), name: gen_string(rng), tags: { let n = rng.range(1, 3); strs(rng, n) }, pair: (gen_int!(rng, u8), { let v = strs(rng, 1); v[0].clone() }),
        ids: (0..rng.range(1, 3)).map(|_| gen_int!(rng, u32)).collect(), last: Ver(gen_int!(rng, u8), 0, 255) };
    round_trip(rep, case, "Seqs{tuple-struct,Vec,tuple,Vec,tuple-struct}", "struct", &sq, &peq);
    let sq2 = Seqs2 { tags: { let n = rng.range(1, 3); strs(rng, n) }, version: Ver(gen_int!(rng, u8), gen_int!(rng, u8), gen_int!(rng, u8)), ids: (0..rng.range(1, 3)).map(|_| gen_int!(rng, u32)).collect(), pair: (gen_int!(rng, u8), "p".into()), more: { let n = rng.range(1, 2); strs(rng, n) } };
    round_trip(rep, case, "Seqs2{Vec,tuple-struct,Vec,tuple,Vec}", "struct", &sq2, &peq);
    let _ = same::<u8>;
}

/* ------------------------------ decoding rule ------------------------------ */

/// escape per RFC 3986 in a random style: everything outside unreserved is escaped (upper or lower hex), some unreserved characters too
fn escape(rng: &mut Rng, s: &str) -> String {
    let mut o = String::new();
    for &b in s.as_bytes() {
        let unreserved = b.is_ascii_alphanumeric() || b"-._~".contains(&b);
        // '+' may travel raw: it must stay '+'
        if (unreserved && !rng.chance(1, 8)) || (b == b'+' && rng.bool()) {
            o.push(b as char);
        } else if rng.bool() {
            o.push_str(&format!("%{:02X}", b));
        } else {
            o.push_str(&format!("%{:02x}", b));
        }
    }
    o
}

#[derive(Deserialize, PartialEq, Debug)]
struct Known {
    alpha: String,
    beta: u32,
    #[serde(rename = "ga mma")]
    gamma: Option<String>,
}

fn decode_case(rep: &mut Report, case: u64, rng: &mut Rng, router: &hook::Router) {
    // (1) arbitrary string pairs into a map and through the query iterator
    let n = rng.range(1, 5);
    let mut pairs: Vec<(String, String)> = vec![];
    while pairs.len() < n {
        let k = gen_string(rng);
        if k.is_empty() || pairs.iter().any(|(x, _)| *x == k) {
            continue;
        }
        pairs.push((k, gen_string(rng)));
    }
    let text = pairs.iter().map(|(k, v)| format!("{}={}", escape(rng, k), escape(rng, v))).collect::<Vec<_>>().join("&");
    // independent reference: split on & and first =, percent-decode
    let reference: Vec<(String, String)> = text
        .split('&')
        .map(|kv| { let (k, v) = kv.split_once('=').unwrap(); (String::from_utf8(percent_decode_strict(k.as_bytes()).unwrap()).unwrap(), String::from_utf8(percent_decode_strict(v.as_bytes()).unwrap()).unwrap()) })
        .collect();
    assert_eq!(reference, pairs, "harness: escape/reference disagree");
    rep.eval();
    rep.count("decodes_into_map");
    rep.distinct(&format!("dec:map:{n}:{}", pairs.iter().map(|(k, v)| format!("{}{}", if k.is_ascii() { 'a' } else { 'u' }, if v.is_empty() { 'e' } else if v.is_ascii() { 'a' } else { 'u' })).collect::<String>()));
    let exp: BTreeMap<String, String> = pairs.iter().cloned().collect();
    match catch(|| from_bytes::<BTreeMap<String, String>>(text.as_bytes())) {
        Ok(Ok(m)) if m == exp => rep.count("decode_equal"),
        Ok(other) => rep.violation("C09/decode-map-differs", &format!("{text:?} -> {:?}, expected {:?}", other.map_err(|e| e.to_string()), exp), json!({"case_index": case, "text": text, "expected": exp})),
        Err(p) => rep.violation(&format!("C09/de-panic@{}", crate::report::panic_site(&p)), &format!("from_bytes(map) panicked on {text:?}: {p}"), json!({"case_index": case, "text": text})),
    }
    // the same text as a query string through the real request parser
    rep.eval();
    rep.count("decodes_through_query_iter");
    let bytes = format!("GET /q?{text} HTTP/1.1\r\nHost: t\r\n\r\n").into_bytes();
    let mut got: Option<Result<Vec<(String, String)>, String>> = None;
    let s = crate::web::session(router, vec![crate::memconn::Seg::Data(bytes)], crate::memconn::End::Hang, 1, |req| {
        got = Some(catch(|| req.query.iter().map(|(k, v)| (k.into_owned(), v.into_owned())).collect()));
    });
    match got {
        Some(Ok(v)) if v == pairs => rep.count("query_iter_equal"),
        other => rep.violation("C09/query-iter-differs", &format!("query {text:?}: iterator gave {:?}, expected {:?} (session {:?})", other, pairs, s.steps.first().map(|s| s.kind())), json!({"case_index": case, "text": text})),
    }
    // (1b) the query iterator on a value whose escapes do not decode to UTF-8 (the iterator yields text: the *decoded* bytes with the
    // invalid sequences replaced) and/or that contains raw '=' (only the first '=' of a part separates key and value)
    if rng.chance(1, 3) {
        let mut vb: Vec<u8> = rng.string_over(b"ab 01", 0, 4).into_bytes();
        let bad: &[u8] = *rng.pick(&[&b""[..], b"\xff", b"\xe3\x81", b"\xe9", b"\xc0\x80", b"\xf0\x9f"]);
        vb.extend_from_slice(bad);
        vb.extend_from_slice(rng.string_over(b"cd9", 0, 3).as_bytes());
        let enc: String = vb.iter().map(|&b| if b.is_ascii_alphanumeric() && !rng.chance(1, 6) { (b as char).to_string() } else { format!("%{b:02X}") }).collect();
        let raw_eq = if bad.is_empty() { *rng.pick(&["=", "==", "=x", "=1=2"]) } else { *rng.pick(&["", "", "=", "=="]) };
        let text = format!("q={enc}{raw_eq}&z=1");
        let mut all = vb.clone();
        all.extend_from_slice(raw_eq.as_bytes());
        let want = vec![("q".to_string(), String::from_utf8_lossy(&all).into_owned()), ("z".to_string(), "1".to_string())];
        rep.eval();
        rep.count(if bad.is_empty() { "query_iter_raw_equals_in_value" } else { "query_iter_escapes_not_utf8" });
        let bytes = format!("GET /q?{text} HTTP/1.1\r\nHost: t\r\n\r\n").into_bytes();
        let mut got: Option<Result<Vec<(String, String)>, String>> = None;
        let s = crate::web::session(router, vec![crate::memconn::Seg::Data(bytes)], crate::memconn::End::Hang, 1, |req| {
            got = Some(catch(|| req.query.iter().map(|(k, v)| (k.into_owned(), v.into_owned())).collect()));
        });
        match got {
            Some(Ok(v)) if v == want => rep.count("query_iter_equal"),
            other => rep.violation(if bad.is_empty() { "C09/query-iter-differs:raw-equals" } else { "C09/query-iter-differs:escapes-not-utf8" },
                &format!("query {text:?}: iterator gave {:?}, expected {:?} (session {:?})", other, want, s.steps.first().map(|s| s.kind())), json!({"case_index": case, "text": text})),
        }
    }
    // (2) a struct: shuffled order, unknown extra pairs, escaped digits
    let alpha = gen_string(rng);
    let beta = gen_int!(rng, u32);
    let gamma = if rng.bool() { None } else { Some({ let s = gen_string(rng); if s.is_empty() { "g".to_string() } else { s } }) };
    let digits_escaped = rng.chance(1, 4);
    let beta_text = if digits_escaped { beta.to_string().bytes().map(|b| format!("%{:02X}", b)).collect::<String>() } else { beta.to_string() };
    let mut kv = vec![format!("{}={}", escape(rng, "alpha"), escape(rng, &alpha)), format!("beta={beta_text}")];
    if let Some(g) = &gamma {
        kv.push(format!("{}={}", escape(rng, "ga mma"), escape(rng, g)));
    }
    for _ in 0..rng.below(3) {
        let (ek, ev) = (format!("extra{}", rng.below(100)), gen_string(rng));
        kv.push(format!("{}={}", escape(rng, &ek), escape(rng, &ev)));
    }
    rng.shuffle(&mut kv);
    let text = kv.join("&");
    let exp = Known { alpha, beta, gamma };
    rep.eval();
    rep.count("decodes_into_struct");
    rep.distinct(&format!("dec:struct:{}:{}:{}", kv.len(), digits_escaped, exp.gamma.is_some()));
    match catch(|| from_bytes::<Known>(text.as_bytes())) {
        Ok(Ok(k)) if k == exp => rep.count("decode_equal"),
        Ok(other) => {
            let sig = if digits_escaped { "C09/decode-struct-differs:escaped-digits" } else { "C09/decode-struct-differs" };
            rep.violation(sig, &format!("{text:?} -> {:?}, expected {:?}", other.map_err(|e| e.to_string()), exp), json!({"case_index": case, "text": text}));
        }
        Err(p) => rep.violation(&format!("C09/de-panic@{}", crate::report::panic_site(&p)), &format!("from_bytes(struct) panicked on {text:?}: {p}"), json!({"case_index": case, "text": text})),
    }
}

pub fn run(args: &Args, rep: &mut Report) {
    let small = args.flag("small").is_some();
    let router = hook::Router::new(ohkami::Ohkami::new(()));
    if args.shard == 0 && args.start == 0 {
        round_trip(rep, u64::MAX, "char", "witness", &F { x: '&' }, &peq);
        round_trip(rep, u64::MAX, "Vec<String>", "witness", &F { x: vec!["x".to_string(), "y".to_string()] }, &peq);
        round_trip(rep, u64::MAX, "Option<String>", "empty-string-in-option-or-seq", &F { x: Some(String::new()) }, &peq);
        round_trip(rep, u64::MAX, "Vec<String>", "witness", &F { x: vec![String::new(), "a".to_string()] }, &peq);
        round_trip(rep, u64::MAX, "Vec<String>", "witness", &F { x: vec!["a".to_string(), String::new()] }, &peq);
        round_trip(rep, u64::MAX, "Vec<String>", "witness", &F { x: vec![String::new(), String::new(), "a".to_string(), String::new()] }, &peq);
        round_trip(rep, u64::MAX, "(String,String)", "witness", &F { x: (String::new(), "a".to_string()) }, &peq);
    }
    let mut case = args.shard;
    while case < args.budget {
        if case >= args.start {
            rep.begin(case);
            let mut rng = Rng::derive(args.seed, 9, case);
            rt_case(rep, case, &mut rng);
            let k = if small { 1 } else { 4 };
            for _ in 0..k {
                decode_case(rep, case, &mut rng, &router);
            }
            rep.end(case);
        }
        case += args.nshards;
    }
}
