//! C10 – multipart/form-data: forms encoded by an independent RFC 7578 encoder, decoded by the real
//! parser into catalogue types, compared field by field.

use crate::report::{catch, Args, Report};
use crate::rng::Rng;
use ohkami::format::File;
use ohkami_lib::serde_multipart::from_bytes;
use serde::Deserialize;
use serde_json::json;

#[derive(Clone, Debug, PartialEq)]
pub enum FormPart {
    Text { name: String, value: String },
    File { name: String, filename: String, mime: String, content: Vec<u8> },
}

#[derive(Clone, Debug)]
pub struct EncodeOpts {
    pub boundary: String,
    pub extra_headers: bool,
    /// where the optional extra part header goes: 0 after the others (default), 1 before them, 2 between Content-Disposition and Content-Type
    pub extra_at: u8,
    pub lower_header_names: bool,
    pub content_type_first: bool,
    /// Content-Type header of the k-th part if it is a text part ("" or missing entry = no header, the default text/plain applies; RFC 7578 4.4/4.5)
    pub text_ctypes: Vec<String>,
}

/// RFC 7578 encoder (boundary is chosen by the caller so that it does not occur in any content)
pub fn encode(parts: &[FormPart], o: &EncodeOpts) -> Vec<u8> {
    let mut out = vec![];
    let cd = if o.lower_header_names { "content-disposition" } else { "Content-Disposition" };
    let ct = if o.lower_header_names { "content-type" } else { "Content-Type" };
    for (k, p) in parts.iter().enumerate() {
        out.extend_from_slice(format!("--{}\r\n", o.boundary).as_bytes());
        match p {
            FormPart::Text { name, value } => {
                if o.extra_headers && o.extra_at == 1 {
                    out.extend_from_slice(b"X-Custom: 1\r\n");
                }
                let tct = o.text_ctypes.get(k).map(|s| s.as_str()).unwrap_or("");
                if !tct.is_empty() && o.content_type_first {
                    out.extend_from_slice(format!("{ct}: {tct}\r\n").as_bytes());
                }
                out.extend_from_slice(format!("{cd}: form-data; name=\"{name}\"\r\n").as_bytes());
                if !tct.is_empty() && !o.content_type_first {
                    out.extend_from_slice(format!("{ct}: {tct}\r\n").as_bytes());
                }
                if o.extra_headers && o.extra_at != 1 {
                    out.extend_from_slice(b"X-Custom: 1\r\n");
                }
                out.extend_from_slice(b"\r\n");
                out.extend_from_slice(value.as_bytes());
            }
            FormPart::File { name, filename, mime, content } => {
                let d = format!("{cd}: form-data; name=\"{name}\"; filename=\"{filename}\"\r\n");
                let t = format!("{ct}: {mime}\r\n");
                let x: &[u8] = b"Content-Transfer-Encoding: binary\r\n";
                let (first, second): (&[u8], &[u8]) = if o.content_type_first && !mime.is_empty() { (t.as_bytes(), d.as_bytes()) } else { (d.as_bytes(), if mime.is_empty() { b"" } else { t.as_bytes() }) };
                if o.extra_headers && o.extra_at == 1 {
                    out.extend_from_slice(x);
                }
                out.extend_from_slice(first);
                if o.extra_headers && o.extra_at == 2 {
                    out.extend_from_slice(x);
                }
                out.extend_from_slice(second);
                if o.extra_headers && o.extra_at != 1 && o.extra_at != 2 {
                    out.extend_from_slice(x);
                }
                out.extend_from_slice(b"\r\n");
                out.extend_from_slice(content);
            }
        }
        out.extend_from_slice(b"\r\n");
    }
    out.extend_from_slice(format!("--{}--\r\n", o.boundary).as_bytes());
    out
}

const BCHARS: &[u8] = b"0123456789abcdefghijklmnopqrstuvwxyzABCDEFGHIJKLMNOPQRSTUVWXYZ'()+_,-./:=?";

fn gen_boundary(rng: &mut Rng, parts: &[FormPart]) -> String {
    loop {
        let n = *rng.pick_weighted(&[(1, 1usize), (3, 8), (6, 30), (2, 70)]);
        let mut b: String = (0..n).map(|_| *rng.pick(BCHARS) as char).collect();
        // RFC 2046: the last character is not a space (none generated); typical browsers: dashes + token
        if rng.chance(1, 3) {
            b = format!("----WebKitFormBoundary{}", &b[..b.len().min(16)]);
            b.truncate(70);
        }
        let delim = format!("--{b}");
        let clash = parts.iter().any(|p| match p {
            FormPart::Text { value, .. } => value.contains(&delim),
            FormPart::File { content, .. } => content.windows(delim.len()).any(|w| w == delim.as_bytes()),
        });
        if !clash {
            return b;
        }
    }
}

fn gen_content(rng: &mut Rng) -> (Vec<u8>, &'static str) {
    match rng.below(13) {
        12 => { let n = *rng.pick(&[8_192usize, 8_193, 9_000, 20_000, 65_536, 70_000]); (rng.bytes(n), "large") }
        0 => (vec![], "empty"),
        1 => (b"line1\r\nline2".to_vec(), "crlf-inside"),
        2 => (b"ends with cr\r".to_vec(), "ends-cr"),
        3 => (b"ends with lf\n".to_vec(), "ends-lf"),
        4 => (b"ends with crlf\r\n".to_vec(), "ends-crlf"),
        5 => (b"\r\n".to_vec(), "only-crlf"),
        6 => (b"--".to_vec(), "dashes"),
        7 => (b"a--b\r\n--c\r\n----".to_vec(), "dash-lines"),
        8 => { let n = rng.range(1, 200); let mut v = rng.bytes(n); v[0] = 0; (v, "nul-binary") }
        9 => { let n = rng.range(1, 3000); (rng.bytes(n), "binary") }
        10 => (vec![0xff, 0xfe, 0xfd, b'\r', b'\n', 0x80], "high-bytes"),
        _ => (rng.string_over(b"hello world 0123456789", 1, 60).into_bytes(), "text"),
    }
}
fn gen_text(rng: &mut Rng) -> (String, &'static str) {
    match rng.below(8) {
        0 => (String::new(), "empty"),
        1 => ("two\r\nlines".into(), "crlf-inside"),
        2 => ("狼 ohkami 🐺".into(), "unicode"),
        3 => ("ends\r\n".into(), "ends-crlf"),
        4 => ("--not a boundary".into(), "dashes"),
        5 => ("x\n".into(), "ends-lf"),
        _ => (rng.string_over(b"abc XYZ 019", 1, 30), "text"),
    }
}

/* ------------------------------ catalogue types ------------------------------ */

#[derive(Deserialize, Debug)]
struct TA<'a> {
    title: &'a str,
    #[serde(borrow)]
    doc: File<'a>,
}
#[derive(Deserialize, Debug)]
struct TB<'a> {
    title: String,
    #[serde(borrow)]
    doc: Option<File<'a>>,
    // `default`: serde's own way to say that an absent field is an empty list (a browser always sends a placeholder part)
    #[serde(rename = "pics", borrow, default)]
    photos: Vec<File<'a>>,
    note: Option<&'a str>,
}
#[derive(Deserialize, Debug)]
struct TC {
    title: String,
    #[serde(rename = "user-name")]
    user_name: String,
}

fn file_eq(f: &File<'_>, p: &FormPart) -> bool {
    match p {
        FormPart::File { filename, mime, content, .. } => f.filename == filename && f.mimetype == mime && f.content == &content[..],
        _ => false,
    }
}

pub fn run(args: &Args, rep: &mut Report) {
    let small = args.flag("small").is_some();
    if args.shard == 0 && args.start == 0 {
        // witness of the repaired finding: required File with an empty file input
        let parts = vec![FormPart::Text { name: "title".into(), value: "t".into() }, FormPart::File { name: "doc".into(), filename: String::new(), mime: "application/octet-stream".into(), content: vec![] }];
        let body = encode(&parts, &EncodeOpts { boundary: "XbOuNd".into(), extra_headers: false, extra_at: 0, lower_header_names: false, content_type_first: false, text_ctypes: vec![] });
        rep.eval();
        match catch(|| from_bytes::<TA>(&body).map(|_| ()).map_err(|e| e.to_string())) {
            Ok(Err(_)) => rep.count("shape_mismatch_refused"),
            Ok(Ok(())) => rep.violation("C10/wrong-value:required-file-from-empty-input", "an empty file input decoded into a required File", json!({"case_index": u64::MAX})),
            Err(p) => rep.violation(&format!("C10/panic@{}", crate::report::panic_site(&p)), &p, json!({"case_index": u64::MAX})),
        }
    }
    let mut case = args.shard;
    while case < args.budget {
        if case >= args.start {
            rep.begin(case);
            let mut rng = Rng::derive(args.seed, 10, case);
            for _ in 0..(if small { 2 } else { 12 }) {
                one(rep, case, &mut rng, small);
            }
            rep.end(case);
        }
        case += args.nshards;
    }
}

fn one(rep: &mut Report, case: u64, rng: &mut Rng, small: bool) {
    let target = rng.below(3);
    let mut parts: Vec<FormPart> = vec![];
    let mut classes: Vec<&'static str> = vec![];
    // "" = the part has no Content-Type header at all (it is optional; RFC 7578 4.4): the file's media type is then empty, whatever earlier parts said
    let mime = |rng: &mut Rng| rng.pick(&["image/png", "text/plain", "application/octet-stream", "application/vnd.ms-excel; charset=utf-8", "image/svg+xml", "", ""]).to_string();
    let fname = |rng: &mut Rng| rng.pick(&["a.png", "my file (1).txt", "狼.jpg", "x", "archive.tar.gz", "semi;colon.txt",
        // what browsers really send: directory-like names ending in a backslash, inner backslashes, an escaped quote (%22), `=` and dashes
        "C:\\fakepath\\", "C:\\Users\\me\\notes.txt", "back\\\\", "a=b.txt", "per%22cent.txt", "--x--"]).to_string();
    let mut content = |rng: &mut Rng, classes: &mut Vec<&'static str>| -> Vec<u8> { let (c, k) = gen_content(rng); classes.push(k); if small && c.len() > 200 { c[..200].to_vec() } else { c } };
    // what the shape is: fits the target or not
    let mut fits = true;
    let mut why = "fits";
    let (title, tk) = gen_text(rng);
    classes.push(tk);
    match target {
        0 => {
            // TA { title: &str, doc: File }
            parts.push(FormPart::Text { name: "title".into(), value: title.clone() });
            match rng.below(6) {
                0 => { fits = false; why = "file-missing" }
                1 => { parts.push(FormPart::File { name: "doc".into(), filename: String::new(), mime: "application/octet-stream".into(), content: vec![] }); fits = false; why = "empty-file-input-into-required-file" }
                2 => { for _ in 0..2 { let c = content(rng, &mut classes); parts.push(FormPart::File { name: "doc".into(), filename: fname(rng), mime: mime(rng), content: c }) } fits = false; why = "two-files-into-one" }
                3 => { parts.push(FormPart::Text { name: "doc".into(), value: "not a file".into() }); fits = false; why = "text-where-file-expected" }
                _ => { let c = content(rng, &mut classes); parts.push(FormPart::File { name: "doc".into(), filename: fname(rng), mime: mime(rng), content: c }) }
            }
        }
        1 => {
            // TB { title: String, doc: Option<File>, pics: Vec<File>, note: Option<&str> }
            parts.push(FormPart::Text { name: "title".into(), value: title.clone() });
            match rng.below(6) {
                0 => {}
                1 => parts.push(FormPart::File { name: "doc".into(), filename: String::new(), mime: "application/octet-stream".into(), content: vec![] }),
                // `<input type=file multiple>` behind an Option<File>: two or three files do not fit "at most one"
                2 => { for _ in 0..rng.range(2, 4) { let c = content(rng, &mut classes); parts.push(FormPart::File { name: "doc".into(), filename: fname(rng), mime: mime(rng), content: c }) } fits = false; why = "several-files-into-option" }
                3 => { parts.push(FormPart::Text { name: "doc".into(), value: "not a file".into() }); fits = false; why = "text-where-optional-file-expected" }
                _ => { let c = content(rng, &mut classes); parts.push(FormPart::File { name: "doc".into(), filename: fname(rng), mime: mime(rng), content: c }) }
            }
            let npics = *rng.pick_weighted(&[(2, 0usize), (2, 1), (2, 2), (2, 3), (1, 5)]);
            if npics == 0 && rng.bool() {
                parts.push(FormPart::File { name: "pics".into(), filename: String::new(), mime: "application/octet-stream".into(), content: vec![] });
            }
            for i in 0..npics {
                let c = content(rng, &mut classes);
                // a real, named empty file is a file (only the nameless empty part means "nothing selected")
                parts.push(FormPart::File { name: "pics".into(), filename: format!("{i}-{}", fname(rng)), mime: mime(rng), content: c });
            }
            if rng.bool() {
                let (n, k) = gen_text(rng);
                classes.push(k);
                parts.push(FormPart::Text { name: "note".into(), value: n });
            }
            if rng.chance(1, 8) {
                // a control the target type does not know, under names a form may well use
                parts.push(FormPart::File { name: rng.pick(&["title2", "dir\\", "x[]", "a b"]).to_string(), filename: "u.bin".into(), mime: mime(rng), content: b"unknown field".to_vec() });
            }
        }
        _ => {
            parts.push(FormPart::Text { name: "title".into(), value: title.clone() });
            let (u, k) = gen_text(rng);
            classes.push(k);
            match rng.below(5) {
                0 => { fits = false; why = "text-missing" }
                1 => { parts.push(FormPart::File { name: "user-name".into(), filename: "f.txt".into(), mime: "text/plain".into(), content: u.clone().into_bytes() }); fits = false; why = "file-where-text-expected" }
                _ => parts.push(FormPart::Text { name: "user-name".into(), value: u }),
            }
            if rng.chance(1, 4) {
                parts.push(FormPart::Text { name: "unknown".into(), value: "ignored".into() });
            }
        }
    }
    // part order: the groups of same-name files stay consecutive and in submission order; the groups themselves are shuffled
    let mut groups: Vec<Vec<FormPart>> = vec![];
    for p in parts.iter().cloned() {
        let n = match &p { FormPart::Text { name, .. } | FormPart::File { name, .. } => name.clone() };
        match groups.iter_mut().find(|g| match &g[0] { FormPart::Text { name, .. } | FormPart::File { name, .. } => *name == n }) {
            Some(g) => g.push(p),
            None => groups.push(vec![p]),
        }
    }
    rng.shuffle(&mut groups);
    let ordered: Vec<FormPart> = groups.into_iter().flatten().collect();
    // one form in three labels (some of) its text parts the way non-browser clients do (Java / Apache HttpClient / Spring / .NET write the charset in upper case)
    let label = rng.chance(1, 3);
    let text_ctypes: Vec<String> = ordered.iter().map(|p| match p {
        FormPart::Text { value, .. } if label && rng.chance(2, 3) => {
            let mut pool = vec!["text/plain", "text/plain; charset=UTF-8", "text/plain;charset=utf-8", "text/plain; charset=\"UTF-8\"", "text/plain; charset=utf8", "Text/Plain; Charset=Utf-8"];
            if value.is_ascii() { pool.extend_from_slice(&["text/plain; charset=US-ASCII", "text/plain; charset=us-ascii"]) }
            rng.pick(&pool).to_string()
        }
        _ => String::new(),
    }).collect();
    if text_ctypes.iter().any(|t| !t.is_empty()) { classes.push("labelled-text-part"); rep.count("forms_with_labelled_text_parts") }
    let opts = EncodeOpts { boundary: gen_boundary(rng, &ordered), extra_headers: rng.chance(1, 3), extra_at: rng.below(3) as u8, lower_header_names: rng.chance(1, 4), content_type_first: rng.chance(1, 4), text_ctypes };
    let body = encode(&ordered, &opts);
    classes.sort();
    classes.dedup();
    rep.eval();
    rep.count(&format!("target:{target}"));
    rep.distinct(&format!("{target}:{why}:{}:{}:{}{}{}", ordered.len(), classes.join("+"), if opts.extra_headers { 1 + opts.extra_at } else { 0 }, opts.lower_header_names as u8, opts.content_type_first as u8));
    let tname = ["TA{title:&str,doc:File}", "TB{title,doc:Option<File>,pics:Vec<File>,note:Option<&str>}", "TC{title,user-name}"][target];
    let cj = |extra: serde_json::Value| json!({"case_index": case, "target": tname, "shape": why,
        "body": crate::rng::show(&body[..body.len().min(1500)]), "body_hex": crate::rng::hex(&body[..body.len().min(3000)]), "detail": extra});
    let find_text = |n: &str| ordered.iter().find_map(|p| if let FormPart::Text { name, value } = p { if name == n { Some(value.clone()) } else { None } } else { None });
    let files = |n: &str| -> Vec<&FormPart> { ordered.iter().filter(|p| matches!(p, FormPart::File { name, .. } if name == n)).collect() };
    let real_files = |n: &str| -> Vec<&FormPart> { files(n).into_iter().filter(|p| !matches!(p, FormPart::File { filename, content, .. } if filename.is_empty() && content.is_empty())).collect() };
    // decode
    let verdict: Result<Result<Option<String>, String>, String> = match target {
        0 => catch(|| from_bytes::<TA>(&body).map(|t| {
            if t.title != title { return Some(format!("title {:?}", t.title)) }
            match real_files("doc").first() { Some(p) if file_eq(&t.doc, p) => None, _ => Some(format!("doc {:?} / {} bytes", t.doc.filename, t.doc.content.len())) }
        }).map_err(|e| e.to_string())),
        1 => catch(|| from_bytes::<TB>(&body).map(|t| {
            if t.title != title { return Some(format!("title {:?}", t.title)) }
            let d = real_files("doc");
            match (&t.doc, d.first()) { (None, None) => {} (Some(f), Some(p)) if file_eq(f, p) => {} _ => return Some(format!("doc {:?}", t.doc.as_ref().map(|f| f.filename))) }
            let ps = real_files("pics");
            if t.photos.len() != ps.len() || !t.photos.iter().zip(&ps).all(|(f, p)| file_eq(f, p)) {
                return Some(format!("pics {:?}, submitted {:?}", t.photos.iter().map(|f| f.filename).collect::<Vec<_>>(), ps.iter().map(|p| if let FormPart::File { filename, .. } = p { filename.clone() } else { String::new() }).collect::<Vec<_>>()));
            }
            let note = find_text("note");
            // an empty text input decodes to an absent value
            let exp_note = note.filter(|n| !n.is_empty());
            if t.note.map(|s| s.to_string()) != exp_note { return Some(format!("note {:?}", t.note)) }
            None
        }).map_err(|e| e.to_string())),
        _ => catch(|| from_bytes::<TC>(&body).map(|t| {
            if t.title != title { return Some(format!("title {:?}", t.title)) }
            if Some(t.user_name.clone()) != find_text("user-name") { return Some(format!("user-name {:?}", t.user_name)) }
            None
        }).map_err(|e| e.to_string())),
    };
    match (verdict, fits) {
        (Err(p), _) => rep.violation(&format!("C10/panic@{}", crate::report::panic_site(&p)), &format!("multipart decoder panicked ({why}): {p}"), cj(json!(null))),
        (Ok(Ok(None)), true) => {
            rep.count("decoded_equal");
            if rep.want_sample() && ordered.len() >= 4 {
                rep.sample(json!({"target": target, "parts": ordered.iter().map(|p| match p { FormPart::Text { name, value } => format!("text {name}={value:?}"), FormPart::File { name, filename, mime, content } => format!("file {name} {filename:?} {mime} {} bytes", content.len()) }).collect::<Vec<_>>(), "boundary": opts.boundary}));
            }
        }
        (Ok(Ok(Some(diff))), true) => rep.violation("C10/decoded-differs", &format!("decoded value differs from the form: {diff}"), cj(json!({"diff": diff}))),
        (Ok(Err(e)), true) => rep.violation("C10/valid-form-rejected", &format!("form that fits the target rejected: {e}"), cj(json!({"error": e}))),
        (Ok(Err(_)), false) => rep.count("shape_mismatch_refused"),
        (Ok(Ok(_)), false) => rep.violation(&format!("C10/wrong-value:{why}"), &format!("a body whose shape does not fit ({why}) decoded to a value"), cj(json!(null))),
    }
}
