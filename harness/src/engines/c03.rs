//! C03 – response serialisation: operation histories over the public Response API, the bytes that
//! `send` writes re-parsed by an independent parser and compared with a map model of the history.

use crate::httpref::{parse_response, Framing};
use crate::report::{catch, Args, Report};
use crate::rng::Rng;
use crate::web;
use ohkami::header::append;
use ohkami::__verif__ as hook;
use ohkami::{Response, Route, Status};
use serde_json::json;
use std::borrow::Cow;
use std::cell::RefCell;

/* ------------------------------ operations ------------------------------ */

#[derive(Clone, Debug)]
pub enum Val {
    Static(usize),
    Owned(String),
    CowB(usize),
    CowO(String),
    SomeCow(String),
}
#[derive(Clone, Debug)]
pub enum Op {
    Status(u16),
    Set(usize, Val),
    Remove(usize),
    Append(usize, String),
    SetX(usize, Val),
    RemoveX(usize),
    AppendX(usize, String),
    Cookie(usize, String, u8),
    Text(String),
    TextStatic(usize),
    Html(String),
    Json(String),
    Payload(usize, Vec<u8>),
    DropContent,
    WithoutContent,
}

pub const STATICS: [&str; 8] = ["", "a", "ohkami", "no-cache, must-revalidate", "text/plain; charset=UTF-8", "W/\"0815\"", "max-age=31536000; includeSubDomains; preload and some more text to be long", ""];
fn static_val(i: usize) -> &'static str {
    if i == 7 {
        // a long one (600 bytes), built once
        thread_local! { static LONG: &'static str = Box::leak("L".repeat(600).into_boxed_str()); }
        LONG.with(|l| *l)
    } else {
        STATICS[i]
    }
}
impl Val {
    fn text(&self) -> String {
        match self {
            Val::Static(i) | Val::CowB(i) => static_val(*i).to_string(),
            Val::Owned(s) | Val::CowO(s) | Val::SomeCow(s) => s.clone(),
        }
    }
}

/// the last five are well-known header names given to the *custom-name* API (`.x(name, ..)`), in several spellings: histories that use
/// them do not touch headers through the typed API (one header written through both APIs is the user's business, not the property's)
pub const XNAMES: [&str; 12] = ["X-A", "X-Ab", "X-Req-ID", "x-lower", "Strict", "X-Content", "Content-Len", "Cache-Control", "vary", "X-Frame-Options", "SERVER", "etag"];
const XNAMES_PLAIN: usize = 7;
pub const COOKIE_NAMES: [&str; 4] = ["id", "session", "a", "SID"];
pub const PAYLOAD_TYPES: [&str; 3] = ["application/octet-stream", "image/png", "text/csv"];

/// independent table of the standard response header names (RFC spelling), in the order of the setter list below
macro_rules! std_headers {
    ($( $idx:literal $setter:ident $wire:literal ),* $(,)?) => {
        pub const STD_NAMES: &[&str] = &[ $( $wire ),* ];
        fn apply_std(res: &mut Response, idx: usize, v: StdAct) {
            match idx {
                $( $idx => match v {
                    StdAct::Static(s) => { res.headers.set().$setter(s); }
                    StdAct::Owned(s) => { res.headers.set().$setter(s); }
                    StdAct::Cow(c) => { res.headers.set().$setter(c); }
                    StdAct::Opt(o) => { res.headers.set().$setter(o); }
                    StdAct::Append(c) => { res.headers.set().$setter(append(c)); }
                }, )*
                _ => unreachable!(),
            }
        }
    };
}
enum StdAct {
    Static(&'static str),
    Owned(String),
    Cow(Cow<'static, str>),
    Opt(Option<Cow<'static, str>>),
    Append(Cow<'static, str>),
}
std_headers! {
    0 AcceptRanges "Accept-Ranges", 1 AccessControlAllowCredentials "Access-Control-Allow-Credentials", 2 AccessControlAllowHeaders "Access-Control-Allow-Headers",
    3 AccessControlAllowMethods "Access-Control-Allow-Methods", 4 AccessControlAllowOrigin "Access-Control-Allow-Origin", 5 AccessControlExposeHeaders "Access-Control-Expose-Headers",
    6 AccessControlMaxAge "Access-Control-Max-Age", 7 Age "Age", 8 Allow "Allow", 9 AltSvc "Alt-Svc", 10 CacheControl "Cache-Control", 11 CacheStatus "Cache-Status",
    12 CDNCacheControl "CDN-Cache-Control", 13 Connection "Connection", 14 ContentDisposition "Content-Disposition", 15 ContentEncoding "Content-Encoding",
    16 ContentLanguage "Content-Language", 17 ContentLocation "Content-Location", 18 ContentRange "Content-Range", 19 ContentSecurityPolicy "Content-Security-Policy",
    20 ContentSecurityPolicyReportOnly "Content-Security-Policy-Report-Only", 21 ContentType "Content-Type", 22 CrossOriginEmbedderPolicy "Cross-Origin-Embedder-Policy",
    23 CrossOriginResourcePolicy "Cross-Origin-Resource-Policy", 24 Date "Date", 25 ETag "ETag", 26 Expires "Expires", 27 Link "Link", 28 Location "Location",
    29 ProxyAuthenticate "Proxy-Authenticate", 30 ReferrerPolicy "Referrer-Policy", 31 Refresh "Refresh", 32 RetryAfter "Retry-After", 33 SecWebSocketAccept "Sec-WebSocket-Accept",
    34 SecWebSocketProtocol "Sec-WebSocket-Protocol", 35 SecWebSocketVersion "Sec-WebSocket-Version", 36 Server "Server", 37 StrictTransportSecurity "Strict-Transport-Security",
    38 Trailer "Trailer", 39 Upgrade "Upgrade", 40 Vary "Vary", 41 Via "Via", 42 XContentTypeOptions "X-Content-Type-Options", 43 XFrameOptions "X-Frame-Options",
    44 WWWAuthenticate "WWW-Authenticate",
}
const IDX_CONTENT_TYPE: usize = 21;
const IDX_DATE: usize = 24;

fn to_act(v: &Val) -> StdAct {
    match v {
        Val::Static(i) => StdAct::Static(static_val(*i)),
        Val::Owned(s) => StdAct::Owned(s.clone()),
        Val::CowB(i) => StdAct::Cow(Cow::Borrowed(static_val(*i))),
        Val::CowO(s) => StdAct::Cow(Cow::Owned(s.clone())),
        Val::SomeCow(s) => StdAct::Opt(Some(Cow::Owned(s.clone()))),
    }
}

pub fn apply(res: &mut Response, op: &Op) {
    match op {
        Op::Status(c) => res.status = Status::from(*c),
        Op::Set(i, v) => apply_std(res, *i, to_act(v)),
        Op::Remove(i) => apply_std(res, *i, StdAct::Opt(None)),
        Op::Append(i, s) => apply_std(res, *i, StdAct::Append(Cow::Owned(s.clone()))),
        Op::SetX(i, v) => {
            let n = XNAMES[*i];
            match v {
                Val::Static(k) => { res.headers.set().x(n, static_val(*k)); }
                Val::Owned(s) => { res.headers.set().x(n, s.clone()); }
                Val::CowB(k) => { res.headers.set().x(n, Cow::Borrowed(static_val(*k))); }
                Val::CowO(s) => { res.headers.set().x(n, Cow::<'static, str>::Owned(s.clone())); }
                Val::SomeCow(s) => { res.headers.set().x(n, Some(Cow::<'static, str>::Owned(s.clone()))); }
            }
        }
        Op::RemoveX(i) => { res.headers.set().x(XNAMES[*i], None::<Cow<'static, str>>); }
        Op::AppendX(i, s) => { res.headers.set().x(XNAMES[*i], append(s.clone())); }
        Op::Cookie(i, v, d) => {
            let d = *d;
            res.headers.set().SetCookie(COOKIE_NAMES[*i], v.clone(), move |mut b| {
                if d & 1 != 0 { b = b.Path("/"); }
                if d & 2 != 0 { b = b.MaxAge(3600); }
                if d & 4 != 0 { b = b.Secure(); }
                if d & 8 != 0 { b = b.HttpOnly(); }
                if d & 16 != 0 { b = b.SameSiteLax(); }
                if d & 32 != 0 { b = b.Domain("example.com"); }
                b
            });
        }
        Op::Text(s) => res.set_text(s.clone()),
        Op::TextStatic(i) => res.set_text(static_val(*i)),
        Op::Html(s) => res.set_html(s.clone()),
        Op::Json(s) => res.set_json(s.clone()),
        Op::Payload(t, b) => res.set_payload(PAYLOAD_TYPES[*t], b.clone()),
        Op::DropContent => { let _ = res.drop_content(); }
        Op::WithoutContent => { let r = std::mem::replace(res, Response::OK()); *res = r.without_content(); }
    }
}

/* ------------------------------ model ------------------------------ */

#[derive(Clone, Debug, Default)]
pub struct Model {
    pub status: u16,
    /// live headers: (wire name, value), insertion order irrelevant
    pub headers: Vec<(String, String)>,
    pub cookies: Vec<String>,
    pub body: Option<Vec<u8>>,
}
impl Model {
    pub fn new(status: u16) -> Self {
        Model { status, headers: vec![("Date".into(), "*".into()), ("Content-Length".into(), "0".into())], cookies: vec![], body: None }
    }
    fn set(&mut self, name: &str, v: String) {
        match self.headers.iter_mut().find(|(k, _)| k == name) {
            Some(e) => e.1 = v,
            None => self.headers.push((name.to_string(), v)),
        }
    }
    fn remove(&mut self, name: &str) {
        self.headers.retain(|(k, _)| k != name);
    }
    fn append(&mut self, name: &str, v: &str) {
        match self.headers.iter_mut().find(|(k, _)| k == name) {
            Some(e) => {
                e.1.push_str(", ");
                e.1.push_str(v)
            }
            None => self.headers.push((name.to_string(), v.to_string())),
        }
    }
    fn content(&mut self, ct: &str, body: Vec<u8>) {
        self.set("Content-Type", ct.to_string());
        self.set("Content-Length", body.len().to_string());
        self.body = Some(body);
    }
    pub fn apply(&mut self, op: &Op) {
        match op {
            Op::Status(c) => self.status = *c,
            Op::Set(i, v) => self.set(STD_NAMES[*i], v.text()),
            Op::Remove(i) => self.remove(STD_NAMES[*i]),
            Op::Append(i, s) => self.append(STD_NAMES[*i], s),
            Op::SetX(i, v) => self.set(XNAMES[*i], v.text()),
            Op::RemoveX(i) => self.remove(XNAMES[*i]),
            Op::AppendX(i, s) => self.append(XNAMES[*i], s),
            Op::Cookie(i, _, _) => self.cookies.push(COOKIE_NAMES[*i].to_string()),
            Op::Text(s) => self.content("text/plain; charset=UTF-8", s.clone().into_bytes()),
            Op::TextStatic(i) => self.content("text/plain; charset=UTF-8", static_val(*i).as_bytes().to_vec()),
            Op::Html(s) => self.content("text/html; charset=UTF-8", s.clone().into_bytes()),
            Op::Json(s) => self.content("application/json", serde_json::to_vec(s).unwrap()),
            Op::Payload(t, b) => self.content(PAYLOAD_TYPES[*t], b.clone()),
            Op::DropContent | Op::WithoutContent => {
                self.remove("Content-Type");
                self.remove("Content-Length");
                self.body = None;
            }
        }
    }
}

/* ------------------------------ generation ------------------------------ */

const STATUSES: [u16; 61] = [
    100, 101, 102, 103, 200, 201, 202, 203, 204, 205, 206, 207, 208, 226, 300, 301, 302, 303, 304, 307, 308, 400, 401, 403, 404, 405, 406, 407, 408, 409, 410, 411, 412, 413, 414, 415, 416, 417,
    418, 421, 422, 423, 424, 426, 428, 429, 431, 451, 500, 501, 502, 503, 504, 505, 506, 507, 508, 510, 511, 200, 200,
];

fn gen_value(rng: &mut Rng) -> String {
    match rng.below(8) {
        0 => String::new(),
        1 => "v".repeat(rng.range(200, 600)),
        2 => {
            // printable + some UTF-8, no CR/LF/NUL (header values are the user's responsibility)
            let n = rng.below(20);
            (0..n).map(|_| { let c = rng.unicode_char(); if c.is_control() { 'x' } else { c } }).collect::<String>().trim().to_string()
        }
        _ => rng.string_over(b"abcdefghijklmnopqrstuvwxyzABCDEFGHIJKLMNOPQRSTUVWXYZ0123456789-_=;,/\"*()", 1, 40).trim().to_string(),
    }
}
fn gen_val(rng: &mut Rng) -> Val {
    match rng.below(6) {
        0 => Val::Static(rng.below(8)),
        1 => Val::CowB(rng.below(8)),
        2 => Val::Owned(gen_value(rng)),
        3 => Val::CowO(gen_value(rng)),
        4 => Val::SomeCow(gen_value(rng)),
        _ => Val::Owned(gen_value(rng)),
    }
}

pub fn gen_history(rng: &mut Rng, long: bool) -> Vec<Op> {
    let n = if long { rng.range(260, 700) } else { *rng.pick_weighted(&[(2, 0usize), (4, 3), (6, 8), (4, 16), (2, 40)]) };
    let n = if n == 0 { 0 } else { rng.range(1, n) };
    // a small working set of headers so that remove/set/append collide
    let hot: Vec<usize> = (0..rng.range(1, 5)).map(|_| { let mut i = rng.below(STD_NAMES.len()); if i == IDX_DATE && rng.bool() { i = 36 } i }).collect();
    // one history in ten drives well-known names through the custom-name API only
    let custom_wellknown = !long && rng.chance(1, 10);
    let hotx: Vec<usize> = (0..rng.range(1, 3)).map(|_| if custom_wellknown { XNAMES_PLAIN + rng.below(XNAMES.len() - XNAMES_PLAIN) } else { rng.below(XNAMES_PLAIN) }).collect();
    let mut ops = vec![];
    if rng.chance(2, 3) {
        ops.push(Op::Status(*rng.pick(&STATUSES)));
    }
    for _ in 0..n {
        let h = if rng.chance(4, 5) { *rng.pick(&hot) } else { rng.below(STD_NAMES.len()) };
        let x = *rng.pick(&hotx);
        let k = rng.below(if long { 12 } else { 22 });
        // (typed header operations become custom-name operations in those histories)
        let k = if custom_wellknown { match k { 0..=2 | 11 => 6, 3 | 4 | 10 => 8, 5 => 9, other => other } } else { k };
        let op = match k {
            0..=2 => Op::Set(h, gen_val(rng)),
            3 | 4 => Op::Remove(h),
            5 => Op::Append(h, gen_value(rng)),
            6 | 7 => Op::SetX(x, gen_val(rng)),
            8 => Op::RemoveX(x),
            9 => Op::AppendX(x, gen_value(rng)),
            10 => Op::Remove(h),
            11 => Op::Set(h, gen_val(rng)),
            12 => Op::Cookie(rng.below(4), rng.unicode_string(12), rng.below(64) as u8),
            13 => if rng.chance(1, 6) && !crate::reqref::SMALL.load(std::sync::atomic::Ordering::Relaxed) { Op::Text("t".repeat((*rng.pick(&[1024usize, 4096, 8192]) + rng.below(3)).saturating_sub(1))) } else { Op::Text(rng.unicode_string(40)) },
            14 => Op::TextStatic(rng.below(8)),
            15 => Op::Html(format!("<p>{}</p>", rng.unicode_string(20))),
            16 => Op::Json(rng.unicode_string(20)),
            17 => {
                // body sizes around the sizes at which an implementation might switch strategy (powers of two, buffer sizes), each +-1
                let k = if rng.chance(1, 2) { *rng.pick(&[0usize, 1, 7, 100, 5000]) } else { (*rng.pick(&[256usize, 1024, 2048, 4096, 8192, 16384, 65536]) + rng.below(3)).saturating_sub(1) };
                let k = if crate::reqref::SMALL.load(std::sync::atomic::Ordering::Relaxed) { k.min(1030) } else { k };
                Op::Payload(rng.below(3), rng.bytes(k))
            }
            18 => Op::DropContent,
            19 => Op::WithoutContent,
            20 => Op::Status(*rng.pick(&STATUSES)),
            _ => Op::Text(rng.string_over(b"hello world", 0, 30)),
        };
        // Content-Type is also written by the body operations; user-level set/remove of it is allowed, too
        let _ = IDX_CONTENT_TYPE;
        ops.push(op);
    }
    ops
}

fn abstract_history(ops: &[Op]) -> (String, bool) {
    // sequence of op kinds per header with values abstracted to a length class
    let lc = |n: usize| match n { 0 => '0', 1..=9 => 's', 10..=99 => 'm', _ => 'l' };
    let mut s = String::new();
    let mut last: std::collections::HashMap<String, char> = Default::default();
    let mut nontrivial = false;
    let mut bodies = 0;
    for op in ops {
        let (key, kind, len) = match op {
            Op::Status(c) => ("st".to_string(), 'S', (*c / 100) as usize),
            Op::Set(i, v) => (format!("h{i}"), 's', v.text().len()),
            Op::Remove(i) => (format!("h{i}"), 'r', 0),
            Op::Append(i, v) => (format!("h{i}"), 'a', v.len()),
            Op::SetX(i, v) => (format!("x{i}"), 's', v.text().len()),
            Op::RemoveX(i) => (format!("x{i}"), 'r', 0),
            Op::AppendX(i, v) => (format!("x{i}"), 'a', v.len()),
            Op::Cookie(i, _, d) => (format!("c{i}"), 'c', *d as usize),
            Op::Text(t) => ("b".into(), 't', t.len()),
            Op::TextStatic(i) => ("b".into(), 'T', static_val(*i).len()),
            Op::Html(t) => ("b".into(), 'h', t.len()),
            Op::Json(t) => ("b".into(), 'j', t.len()),
            Op::Payload(_, b) => ("b".into(), 'p', b.len()),
            Op::DropContent => ("b".into(), 'd', 0),
            Op::WithoutContent => ("b".into(), 'w', 0),
        };
        if let Some(prev) = last.get(&key) {
            if (*prev == 'r' && (kind == 's' || kind == 'a')) || (*prev == 's' && kind == 'a') {
                nontrivial = true;
            }
        }
        if key == "b" {
            bodies += 1;
            if bodies >= 2 { nontrivial = true; }
        }
        last.insert(key.clone(), kind);
        s.push_str(&format!("{key}{kind}{};", lc(len)));
    }
    (s, nontrivial)
}

/* ------------------------------ the check ------------------------------ */

thread_local! {
    static CURRENT: RefCell<Vec<Op>> = RefCell::new(vec![]);
}

fn build_response(ops: &[Op]) -> Response {
    let mut res = Response::OK();
    for op in ops {
        apply(&mut res, op);
    }
    res
}

pub fn run(args: &Args, rep: &mut Report) {
    let small = args.flag("small").is_some();
    crate::reqref::SMALL.store(small, std::sync::atomic::Ordering::Relaxed);
    // the application: one route whose handler builds the response from the current history
    let router = hook::Router::new(ohkami::Ohkami::new(("/r".GET(|| {
        let ops = CURRENT.with(|c| c.borrow().clone());
        async move { build_response(&ops) }
    }),)));
    if args.shard == 0 && args.start == 0 {
        // witnesses of known / repaired findings
        check(rep, u64::MAX, &router, &vec![Op::Set(36, Val::Static(2)), Op::Remove(36), Op::Set(36, Val::Owned("y".repeat(300)))], "GET");
        check(rep, u64::MAX, &router, &vec![Op::Text("hello".into()), Op::WithoutContent], "GET");
        check(rep, u64::MAX, &router, &vec![Op::Set(15, Val::Static(2))], "GET");
    }
    let mut case = args.shard;
    while case < args.budget {
        if case >= args.start {
            rep.begin(case);
            let mut rng = Rng::derive(args.seed, 3, case);
            let long = !small && rng.chance(1, 200);
            let ops = gen_history(&mut rng, long);
            let method = if rng.chance(1, 4) { "HEAD" } else { "GET" };
            if long { rep.count("long_histories"); }
            check(rep, case, &router, &ops, method);
            rep.end(case);
        }
        case += args.nshards;
    }
}

fn check(rep: &mut Report, case: u64, router: &hook::Router, ops: &Vec<Op>, method: &str) {
    rep.eval();
    let mut model = Model::new(200);
    for op in ops {
        model.apply(op);
    }
    let (abs, nontrivial) = abstract_history(ops);
    if nontrivial {
        rep.distinct(&format!("{method}:{abs}"));
        rep.count("nontrivial_histories");
    }
    // declared size and direct send (no router post-processing), for the capacity claim
    let direct = catch(|| {
        let res = build_response(ops);
        let declared = hook::response_declared_size(&res);
        (declared, web::send_response(res))
    });
    let case_json = |extra: serde_json::Value| json!({"case_index": case, "method": method, "ops": format!("{:?}", ops).chars().take(3000).collect::<String>(), "detail": extra});
    match &direct {
        Err(p) => {
            let site = crate::report::panic_site(p);
            let kind = if p.contains("push_unchecked beyond reserved capacity") { "overrun".to_string() } else { format!("panic@{site}") };
            rep.violation(&format!("C03/direct-{kind}"), &format!("building/sending the response panicked: {p}"), case_json(json!({"panic": p})));
        }
        Ok((declared, Err(e))) => {
            let kind = if e.contains("push_unchecked beyond reserved capacity") { "overrun" } else { "send-failed" };
            rep.violation(&format!("C03/direct-{kind}"), &format!("send failed (declared {declared}): {e}"), case_json(json!({"error": e, "declared": declared})));
        }
        Ok((declared, Ok((writes, _)))) => {
            let n: usize = writes.iter().map(|w| w.len()).sum();
            rep.max("max_bytes_written", n as u64);
            if n > *declared {
                rep.violation("C03/wrote-more-than-declared", &format!("{n} bytes written, {declared} reserved"), case_json(json!({"written": n, "declared": declared})));
            }
        }
    }
    // through the router (complete(), HEAD branch), then the wire check
    CURRENT.with(|c| *c.borrow_mut() = ops.clone());
    let bytes = web::build_request(method, "/r", &[("Host", "t")], b"");
    let step = web::oneshot(router, &bytes);
    let wire = match &step {
        web::Step::Handled(b) => b.clone(),
        other => {
            let p = format!("{other:?}");
            let kind = if p.contains("push_unchecked beyond reserved capacity") { "overrun".to_string() } else { other.kind().to_string() };
            rep.violation(&format!("C03/routed-{kind}"), &format!("request ended as {}", p.chars().take(300).collect::<String>()), case_json(json!({"step": p.chars().take(600).collect::<String>()})));
            return;
        }
    };
    let problems = wire_problems(&model, &wire, method == "HEAD");
    for (kind, what) in problems {
        rep.violation(&format!("C03/{kind}"), &what, case_json(json!({"wire": crate::rng::show(&wire), "model_headers": model.headers, "model_status": model.status})));
    }
    if rep.want_sample() && nontrivial {
        rep.sample(json!({"method": method, "ops": format!("{:?}", ops).chars().take(500).collect::<String>(), "wire": crate::rng::show(&wire)}));
    }
}

/// compare the wire bytes with the model of the history. Returns (kind, description) per problem.
pub fn wire_problems(model: &Model, wire: &[u8], head: bool) -> Vec<(String, String)> {
    let mut out = vec![];
    let r = match parse_response(wire, head) {
        Ok(r) => r,
        Err(e) => return vec![("malformed".into(), format!("not a well-formed response: {e}"))],
    };
    if r.status != model.status {
        out.push(("status".into(), format!("status {} on the wire, {} set", r.status, model.status)));
    }
    let may_carry_body = !((100..200).contains(&model.status) || model.status == 204 || model.status == 304);
    // expected header set after the framework's own fix-ups
    let mut exp: Vec<(String, String)> = model.headers.clone();
    if model.status == 204 {
        exp.retain(|(k, _)| k != "Content-Length");
    }
    // live headers exactly once with the latest value
    let mut seen: Vec<String> = vec![];
    for (k, v) in &r.headers {
        if k.eq_ignore_ascii_case("set-cookie") {
            continue;
        }
        if seen.iter().any(|s| s.eq_ignore_ascii_case(k)) {
            out.push(("duplicate-header".into(), format!("header {k} appears more than once")));
            continue;
        }
        seen.push(k.clone());
        match exp.iter().find(|(n, _)| n == k) {
            None => {
                if k.eq_ignore_ascii_case("content-length") && may_carry_body && model.body.is_none() && v == "0" {
                    // a length the framework declares for an empty body is exactly what the property asks for
                } else if exp.iter().any(|(n, _)| n.eq_ignore_ascii_case(k)) {
                    out.push(("header-name".into(), format!("header written as {k:?}")));
                } else {
                    out.push(("stale-header".into(), format!("header {k}: {v:?} is on the wire but not live in the history")));
                }
            }
            Some((_, ev)) => {
                let ev_trim = ev.trim_matches(|c| c == ' ' || c == '\t');
                let matches_date = ev.starts_with('*') && v.len() >= 29 && v.as_bytes()[29..] == ev_trim.as_bytes()[1..];
                if !matches_date && v != ev_trim {
                    out.push(("header-value".into(), format!("header {k}: {v:?} on the wire, latest value {ev:?}")));
                }
            }
        }
    }
    for (k, _) in &exp {
        if !r.headers.iter().any(|(n, _)| n == k) && !r.headers.iter().any(|(n, _)| n.eq_ignore_ascii_case(k)) {
            out.push(("missing-header".into(), format!("live header {k} is not on the wire")));
        }
    }
    // cookies: one line per call, in order
    let cookies: Vec<&str> = r.get_all("set-cookie");
    if cookies.len() != model.cookies.len() || cookies.iter().zip(&model.cookies).any(|(l, n)| !l.starts_with(&format!("{n}="))) {
        out.push(("set-cookie".into(), format!("Set-Cookie lines {:?}, expected one per call for {:?}", cookies, model.cookies)));
    }
    // framing
    if model.status == 204 {
        if r.get("content-length").is_some() {
            out.push(("204-content-length".into(), "204 with Content-Length".into()));
        }
        if r.consumed != wire.len() {
            out.push(("204-body".into(), "204 with body bytes".into()));
        }
    } else if head {
        if r.consumed != wire.len() {
            out.push(("head-body".into(), "HEAD response with body bytes".into()));
        }
    } else if may_carry_body {
        match r.framing {
            Framing::ContentLength(n) => {
                let body = model.body.clone().unwrap_or_default();
                if r.consumed != wire.len() {
                    out.push(("length-mismatch".into(), format!("Content-Length {n} but {} body bytes follow", wire.len() - (r.consumed - n))));
                } else if r.body != body {
                    out.push(("body".into(), "body bytes differ from the payload set".into()));
                }
            }
            Framing::Chunked => {}
            Framing::UntilClose => out.push(("no-declared-length".into(), format!("status {} response with neither Content-Length nor chunked coding", model.status))),
            Framing::NoBodyByRule => {}
        }
    }
    out
}
