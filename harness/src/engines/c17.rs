//! C17 – server-sent event streams: message sequences x scripted producer schedules, the bytes that the
//! real `send` writes are de-chunked strictly and decoded by an independent WHATWG event-stream parser.

use crate::exec::{drive_with, Drive};
use crate::httpref::{parse_response, Framing};
use crate::memconn::Sink;
use crate::report::{catch, Args, Report};
use crate::rng::Rng;
use ohkami::sse::DataStream;
use ohkami::__verif__ as hook;
use ohkami::{Ohkami, Response, Route};
use serde_json::json;
use std::cell::RefCell;
use std::future::Future;
use std::pin::Pin;
use std::sync::{Arc, Mutex};
use std::task::{Context, Poll, Waker};

#[derive(Clone, Debug)]
pub enum Act {
    Push(String),
    /// return Pending after waking oneself
    Yield,
    /// return Pending, the wake comes later from outside (the executor's idle turn)
    Park,
}

type Slot = Arc<Mutex<Vec<Waker>>>;

/// the producer future handed to `DataStream::new` / `stream::queue`
struct Producer<P: FnMut(String)> {
    acts: Vec<Act>,
    i: usize,
    push: P,
    slot: Slot,
}
impl<P: FnMut(String) + Unpin> Future for Producer<P> {
    type Output = ();
    fn poll(mut self: Pin<&mut Self>, cx: &mut Context<'_>) -> Poll<()> {
        loop {
            let i = self.i;
            if i >= self.acts.len() {
                return Poll::Ready(());
            }
            self.i += 1;
            match self.acts[i].clone() {
                Act::Push(m) => (self.push)(m),
                Act::Yield => {
                    cx.waker().wake_by_ref();
                    return Poll::Pending;
                }
                Act::Park => {
                    self.slot.lock().unwrap().push(cx.waker().clone());
                    return Poll::Pending;
                }
            }
        }
    }
}

/// a plain Stream driven by the same script (for `From<S: Stream>`)
struct Plain {
    acts: Vec<Act>,
    i: usize,
    slot: Slot,
}
impl ohkami::util::Stream for Plain {
    type Item = String;
    fn poll_next(mut self: Pin<&mut Self>, cx: &mut Context<'_>) -> Poll<Option<String>> {
        let i = self.i;
        if i >= self.acts.len() {
            return Poll::Ready(None);
        }
        self.i += 1;
        match self.acts[i].clone() {
            Act::Push(m) => Poll::Ready(Some(m)),
            Act::Yield => {
                cx.waker().wake_by_ref();
                Poll::Pending
            }
            Act::Park => {
                self.slot.lock().unwrap().push(cx.waker().clone());
                Poll::Pending
            }
        }
    }
}

/// items with this prefix are what the filter of producer kinds 3 and 4 rejects; they are not among the expected messages
const DROP: &str = "\u{7f}DROP";
const PRODUCERS: [&str; 6] = ["DataStream::new", "From<Stream>", "stream::queue", "queue+filter", "Stream+filter+map", "Stream+chain"];

thread_local! {
    static SCRIPT: RefCell<(Vec<Act>, usize, Option<Slot>)> = RefCell::new((vec![], 0, None));
}

fn make_response(kind: usize, acts: Vec<Act>, slot: Slot) -> Response {
    use ohkami::IntoResponse;
    match kind {
        0 => DataStream::<String>::new(move |mut s| Producer { acts, i: 0, push: move |m: String| s.send(m), slot }).into_response(),
        1 => DataStream::<String>::from(Plain { acts, i: 0, slot }).into_response(),
        2 => Response::OK().with_stream(ohkami::util::stream::queue(move |mut q| Producer { acts, i: 0, push: move |m: String| q.push(m), slot })),
        // the stream adaptors of ohkami::util::StreamExt between the producer and the response: a filter that rejects marked items (the script
        // puts them before, between and after the real messages), an identity map, a chain of the script's two halves
        3 => {
            use ohkami::util::StreamExt;
            DataStream::<String>::from(ohkami::util::stream::queue(move |mut q| Producer { acts, i: 0, push: move |m: String| q.push(m), slot }).filter(|m: &String| !m.starts_with(DROP))).into_response()
        }
        4 => {
            use ohkami::util::StreamExt;
            DataStream::<String>::from(Plain { acts, i: 0, slot }.filter(|m: &String| !m.starts_with(DROP)).map(|m: String| m)).into_response()
        }
        _ => {
            use ohkami::util::StreamExt;
            let cut = acts.len() / 2;
            let (a, b) = (acts[..cut].to_vec(), acts[cut..].to_vec());
            DataStream::<String>::from(Plain { acts: a, i: 0, slot: slot.clone() }.chain(Plain { acts: b, i: 0, slot })).into_response()
        }
    }
}

/* ------------------------------ WHATWG event-stream parser (independent) ------------------------------ */

#[derive(Debug, Clone, PartialEq)]
pub struct Event {
    pub typ: String,
    pub data: String,
    pub id: Option<String>,
}

pub fn parse_event_stream(bytes: &[u8]) -> Result<Vec<Event>, String> {
    let text = std::str::from_utf8(bytes).map_err(|e| format!("stream is not UTF-8: {e}"))?;
    let text = text.strip_prefix('\u{feff}').unwrap_or(text);
    // lines end with CRLF, LF or CR
    let mut lines: Vec<&str> = vec![];
    let b = text.as_bytes();
    let (mut start, mut i) = (0, 0);
    while i < b.len() {
        match b[i] {
            b'\r' => {
                lines.push(&text[start..i]);
                i += if b.get(i + 1) == Some(&b'\n') { 2 } else { 1 };
                start = i;
            }
            b'\n' => {
                lines.push(&text[start..i]);
                i += 1;
                start = i;
            }
            _ => i += 1,
        }
    }
    let unterminated = &text[start..];
    let mut out = vec![];
    let (mut data, mut typ, mut id): (String, String, Option<String>) = (String::new(), String::new(), None);
    for line in lines {
        if line.is_empty() {
            // dispatch
            if !data.is_empty() {
                let d = data.strip_suffix('\n').unwrap_or(&data).to_string();
                out.push(Event { typ: std::mem::take(&mut typ), data: d, id: id.clone() });
            }
            data.clear();
            typ.clear();
            continue;
        }
        if line.starts_with(':') {
            continue;
        }
        let (field, value) = match line.split_once(':') {
            Some((f, v)) => (f, v.strip_prefix(' ').unwrap_or(v)),
            None => (line, ""),
        };
        match field {
            "event" => typ = value.to_string(),
            "data" => {
                data.push_str(value);
                data.push('\n');
            }
            "id" => {
                if !value.contains('\0') {
                    id = Some(value.to_string())
                }
            }
            _ => {}
        }
    }
    if !unterminated.is_empty() || !data.is_empty() {
        return Err(format!("stream ends inside an event (pending data {:?}, unterminated line {:?})", data, unterminated));
    }
    Ok(out)
}

/// the first n bytes of s, cut back to a character boundary
fn cut(s: &str, n: usize) -> &str {
    let mut n = n.min(s.len());
    while !s.is_char_boundary(n) {
        n -= 1;
    }
    &s[..n]
}

/* ------------------------------ generation ------------------------------ */

fn gen_message(rng: &mut Rng, small: bool) -> (String, char) {
    match rng.below(20) {
        // sizes at which an implementation may switch buffers or split its writes: the *encoded* event (`data: ` + line + LF per line, one
        // more LF at the end) is exactly 2^k, k * 4096, or one byte off; single line and two lines
        18 | 19 if !small => {
            let total = *rng.pick(&[512usize, 1024, 2048, 4096, 8192, 12_288, 16_384, 32_768, 65_536, 131_072]);
            let total = (total as i64 + *rng.pick(&[0i64, 0, 0, -1, 1])) as usize;
            if rng.bool() {
                ("s".repeat(total - 8), 'z')
            } else {
                let first = rng.range(1, total - 16);
                (format!("{}\n{}", "a".repeat(first), "b".repeat(total - 15 - first)), 'z')
            }
        }
        18 | 19 => ("z".repeat(rng.range(1, 80)), 'a'),
        // every kind of line break mixed in one message (a normaliser that handles each kind alone may not handle them together)
        16 => (rng.pick(&["head\r\nbody\rtail", "x\r\r\ny", "a\rb\r\nc\nd", "\r\n\r", "one\n\rtwo\r\n\nthree\r", "header\r\nbody\revent: pwned\rid: 666"]).to_string(), 'm'),
        17 => {
            // random text over a small alphabet rich in line breaks
            let n = rng.range(1, 12);
            let parts = ["\r", "\n", "\r\n", "a", "b ", ":", "data: ", "id: 7"];
            ((0..n).map(|_| *rng.pick(&parts)).collect::<String>(), 'm')
        }
        0 => (String::new(), 'e'),
        1 => ("line1\nline2".into(), 'n'),
        2 => ("a\rb".into(), 'r'),
        3 => ("a\r\nb".into(), 'c'),
        4 => (" leading space".into(), 's'),
        5 => (":colon first".into(), ':'),
        6 => ("data: x".into(), 'd'),
        7 => ("event: y\nid: 1\nretry: 5".into(), 'f'),
        8 => ("x\revent: injected".into(), 'i'),
        9 => ("\n".into(), 'l'),
        10 => ("trailing\n".into(), 't'),
        11 => ("\n\nblank lines\n\n".into(), 'b'),
        12 => (rng.unicode_string(20).replace('\0', "0"), 'u'),
        13 => ("x".repeat(if small { 300 } else { *rng.pick(&[4096usize, 65_536, 1_000_000]) }), 'L'),
        14 => ("狼 🐺 ohkami".into(), 'u'),
        _ => (rng.string_over(b"hello world 0123", 1, 30), 'a'),
    }
}

fn gen_schedule(rng: &mut Rng, msgs: &[String]) -> (Vec<Act>, String) {
    let mut acts = vec![];
    let mut shape = String::new();
    let style = rng.below(6);
    for m in msgs {
        match style {
            0 => {}                                                       // burst: everything before the first yield
            1 => { acts.push(Act::Yield); shape.push('y') }             // yield before each push
            2 => { acts.push(Act::Park); shape.push('p') }              // park before each push
            _ => {
                for _ in 0..rng.below(3) {
                    if rng.bool() { acts.push(Act::Yield); shape.push('y') } else { acts.push(Act::Park); shape.push('p') }
                }
            }
        }
        acts.push(Act::Push(m.clone()));
        shape.push('M');
    }
    // what happens after the last push: nothing / yields / a long pause / completion with a non-empty queue is the default for style 0
    match rng.below(4) {
        0 => {}
        1 => { acts.push(Act::Yield); shape.push('y') }
        2 => { for _ in 0..3 { acts.push(Act::Park); shape.push('p') } }
        _ => { acts.push(Act::Park); acts.push(Act::Yield); shape.push_str("py") }
    }
    (acts, shape)
}

/* ------------------------------ the check ------------------------------ */

pub fn run(args: &Args, rep: &mut Report) {
    let small = args.flag("small").is_some();
    let router = hook::Router::new(Ohkami::new(("/sse".GET(|| {
        let (acts, kind, slot) = SCRIPT.with(|s| { let s = s.borrow(); (s.0.clone(), s.1, s.2.clone().unwrap()) });
        async move { make_response(kind, acts, slot) }
    }),)));
    if args.shard == 0 && args.start == 0 {
        check(rep, u64::MAX, &router, &["x\revent: injected".to_string()], vec![Act::Push("x\revent: injected".to_string())], "M".into(), 0);
    }
    let mut case = args.shard;
    while case < args.budget {
        if case >= args.start {
            rep.begin(case);
            let mut rng = Rng::derive(args.seed, 17, case);
            let n = *rng.pick_weighted(&[(1, 0usize), (3, 1), (4, 3), (3, 8), (1, if small { 8 } else { 30 })]);
            let n = if n == 0 { 0 } else { rng.range(1, n) };
            let mut classes = String::new();
            // one case in 40: a long run of short messages (255-700), so that more than 2^8 items are handed over without a pause in between
            let long_run = !small && case % 40 == 7;
            let msgs: Vec<String> = if long_run { rep.count("long_runs"); let k = *rng.pick(&[255usize, 256, 257, 300, 513, 700]); classes.push('R'); (0..k).map(|i| format!("m{i}")).collect() }
                else { (0..n).map(|_| { let (m, c) = gen_message(&mut rng, small); classes.push(c); m }).collect() };
            let (mut acts, mut shape) = gen_schedule(&mut rng, &msgs);
            if long_run && rng.bool() { acts.retain(|a| matches!(a, Act::Push(_))); shape = "burst".into() }
            let kind = rng.below(6);
            if kind == 3 || kind == 4 {
                // marked items the filter must swallow: in front of, between and behind the real messages (also as the very last item)
                let k = rng.range(1, 4);
                for j in 0..k {
                    let at = match rng.below(4) { 0 => 0, 1 => acts.len(), _ => rng.below(acts.len() + 1) };
                    acts.insert(at, Act::Push(format!("{DROP}{j}")));
                }
                shape.push_str("+drops");
            }
            let mut cs: Vec<char> = classes.chars().collect();
            cs.sort();
            cs.dedup();
            if shape.contains('y') || shape.contains('p') || cs.iter().any(|c| "nrclti".contains(*c)) {
                rep.distinct(&format!("{kind}:{}:{}", cs.iter().collect::<String>(), compress(&shape)));
            }
            check(rep, case, &router, &msgs, acts, shape, kind);
            rep.end(case);
        }
        case += args.nshards;
    }
}

fn compress(shape: &str) -> String {
    // run-length class of the schedule: keeps the order of kinds, caps repetitions
    let mut o = String::new();
    let mut last = ' ';
    let mut run = 0;
    for c in shape.chars() {
        if c == last { run += 1; if run < 3 { o.push(c) } } else { o.push(c); last = c; run = 1 }
    }
    o
}

fn check(rep: &mut Report, case: u64, router: &hook::Router, msgs: &[String], acts: Vec<Act>, shape: String, kind: usize) {
    rep.eval();
    rep.count("schedules");
    rep.count(&format!("producer_kind:{}", PRODUCERS[kind]));
    // max burst = queue depth reached before a yield
    let mut depth = 0u64;
    let mut run = 0u64;
    for a in &acts {
        match a { Act::Push(_) => { run += 1; depth = depth.max(run) } _ => run = 0 }
    }
    rep.max("max_queue_depth", depth);
    let slot: Slot = Arc::new(Mutex::new(vec![]));
    SCRIPT.with(|s| *s.borrow_mut() = (acts.clone(), kind, Some(slot.clone())));
    let pname = PRODUCERS[kind];
    let cj = |extra: serde_json::Value| json!({"case_index": case, "producer": pname, "messages": msgs.iter().map(|m| if m.len() > 80 { format!("{}..({} bytes)", cut(m, 40), m.len()) } else { m.clone() }).collect::<Vec<_>>(), "schedule": shape, "detail": extra});
    // request through the real reader and router, response through the real send; external wakes are fired on idle turns
    let result = catch(|| {
        let mut sink = Sink::new();
        let fut = async {
            let mut req = hook::request_new(crate::web::IP);
            let mut req = Pin::new(&mut req);
            let mut input: &[u8] = b"GET /sse HTTP/1.1\r\nHost: t\r\n\r\n";
            match hook::request_read(req.as_mut(), &mut input).await {
                Ok(Some(())) => {}
                _ => return false,
            }
            let res = router.handle(req.as_mut().get_mut()).await;
            hook::response_send(res, &mut sink).await;
            true
        };
        let mut idle_turns = 0u64;
        let (done, stuck, polls) = {
            let mut fut = Box::pin(fut);
            let (d, stats) = drive_with(fut.as_mut(), 10_000_000, |_| {
                idle_turns += 1;
                let w = slot.lock().unwrap().pop();
                match w {
                    Some(w) => { w.wake(); true }
                    None => false,
                }
            });
            (matches!(d, Drive::Ready(true)), matches!(d, Drive::Stuck), stats.polls)
        };
        (done, stuck, polls, idle_turns, sink.writes)
    });
    let (done, stuck, polls, idle_turns, writes) = match result {
        Ok(x) => x,
        Err(p) => {
            rep.violation(&format!("C17/panic@{}", crate::report::panic_site(&p)), &format!("stream response panicked: {p}"), cj(json!(null)));
            return;
        }
    };
    rep.count_n("polls", polls);
    rep.count_n("idle_turns_with_external_wake", idle_turns);
    let wire = writes.concat();
    if stuck {
        rep.violation("C17/stuck", "the sending task is pending with no wake owed while the producer has not finished", cj(json!({"wire_so_far": crate::rng::show(&wire[..wire.len().min(600)])})));
        return;
    }
    if !done {
        rep.violation("C17/not-completed", "sending did not complete", cj(json!(null)));
        return;
    }
    // head + strict de-chunking
    let r = match parse_response(&wire, false) {
        Ok(r) => r,
        Err(e) => {
            rep.violation("C17/malformed-chunked-body", &format!("not a valid chunked response: {e}"), cj(json!({"wire": crate::rng::show(&wire[..wire.len().min(1500)])})));
            return;
        }
    };
    let mut problems: Vec<(&str, String)> = vec![];
    if r.status != 200 { problems.push(("status", format!("status {}", r.status))) }
    if r.framing != Framing::Chunked { problems.push(("framing", format!("framing {:?}", r.framing))) }
    if r.get("content-length").is_some() { problems.push(("content-length", "Content-Length on a stream".into())) }
    if r.get("content-type").map(|c| c.starts_with("text/event-stream")) != Some(true) { problems.push(("content-type", format!("Content-Type {:?}", r.get("content-type")))) }
    if r.consumed != wire.len() { problems.push(("bytes-after-final-chunk", format!("{} bytes after the terminating chunk", wire.len() - r.consumed))) }
    // the event stream
    let expected: Vec<Event> = msgs.iter().map(|m| Event { typ: String::new(), data: m.replace("\r\n", "\n").replace('\r', "\n"), id: None }).collect();
    match parse_event_stream(&r.body) {
        Err(e) => problems.push(("event-stream", e)),
        Ok(evs) => {
            if evs != expected {
                let has_cr = msgs.iter().any(|m| m.contains('\r'));
                let kind = if evs.len() != expected.len() { if has_cr { "events-lost-or-split:cr" } else { "events-lost-or-split" } } else if evs.iter().any(|e| !e.typ.is_empty() || e.id.is_some()) { "field-injection" } else if has_cr { "data-differs:cr" } else { "data-differs" };
                let first = evs.iter().zip(&expected).position(|(a, b)| a != b).unwrap_or(evs.len().min(expected.len()));
                problems.push((kind, format!("decoded {} events, sent {}; first difference at {first}: got {:?}, sent {:?}", evs.len(), expected.len(), evs.get(first), expected.get(first).map(|e| if e.data.len() > 60 { format!("{}..", cut(&e.data, 60)) } else { e.data.clone() }))));
            }
        }
    }
    if problems.is_empty() {
        rep.count("streams_decoded_exactly");
        rep.count_n("messages_delivered", msgs.len() as u64);
        if rep.want_sample() && msgs.len() >= 2 && shape.contains('p') {
            rep.sample(json!({"producer": pname, "schedule": shape, "messages": msgs.iter().map(|m| if m.len() > 40 { format!("{}..", cut(m, 40)) } else { m.clone() }).collect::<Vec<_>>(), "chunks_written": writes.len()}));
        }
    }
    for (k, what) in problems {
        rep.violation(&format!("C17/{k}"), &what, cj(json!({"body": crate::rng::show(&r.body[..r.body.len().min(800)])})));
    }
}
