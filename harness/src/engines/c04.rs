//! C04 – fang (middleware) order and scope against the order computed from the configuration tree.

use crate::appgen::*;
use crate::engines::c01::{greedy, ideal, path_segments};
use crate::httpref::parse_response;
use crate::report::{catch, Args, Report};
use crate::rng::Rng;
use crate::trace::{self, Ev};
use crate::web::{self, Step};
use ohkami::__verif__ as hook;
use serde_json::json;

/* ------------------------------ generation ------------------------------ */

/// would the router's static-first descent (C01's known no-back-tracking finding) make the scope of the param-prefixed
/// mount `p` ambiguous because `r` puts a static sibling next to one of its params?
fn param_conflict(p: &RouteT, r: &RouteT) -> bool {
    for i in 0..p.len() {
        if let Seg::P(_) = p[i] {
            if r.len() > i && same_shape(&p[..i].to_vec(), &r[..i].to_vec()) && matches!(r[i], Seg::S(_)) {
                return true;
            }
        }
    }
    false
}

fn gen_app(rng: &mut Rng, ids: &mut IdGen, depth: usize, params_left: usize) -> AppDesc {
    let id = ids.app();
    let fangs = gen_fangs(rng, ids, 8);
    let n_items = rng.range(if depth == 0 { 1 } else { 0 }, if depth == 0 { 6 } else { 4 });
    let mut items: Vec<ItemDesc> = vec![];
    let mut used: Vec<RouteT> = vec![];
    for _ in 0..n_items {
        let want_mount = depth < 3 && rng.chance(2, 5);
        if want_mount {
            let mut prefix = gen_route(rng, 2, params_left.min(1));
            if prefix.is_empty() {
                prefix.push(Seg::S(rng.pick(&STATIC_NAMES).to_string()));
            }
            // side condition of the property: the prefix is used by this application only and nothing else lies under
            // (or pattern-overlaps) it
            if used.iter().any(|r| !r.is_empty() && (overlaps_prefix(&prefix, r) || param_conflict(&prefix, r))) {
                continue;
            }
            if items.iter().any(|it| matches!(it, ItemDesc::Mount { prefix: q, .. } if param_conflict(q, &prefix))) {
                continue;
            }
            let sub = gen_app(rng, ids, depth + 1, params_left - n_params(&prefix));
            used.push(prefix.clone());
            items.push(ItemDesc::Mount { prefix, app: sub });
        } else {
            let route = gen_route(rng, 3, params_left);
            if used.iter().any(|r| same_shape(r, &route)) {
                continue;
            }
            // keep clear of mounts
            let clash = items.iter().any(|it| matches!(it, ItemDesc::Mount { prefix, .. } if !route.is_empty() && (overlaps_prefix(prefix, &route) || param_conflict(prefix, &route))));
            if clash {
                continue;
            }
            let mut ms: Vec<usize> = (0..5).collect();
            rng.shuffle(&mut ms);
            let k = *rng.pick_weighted(&[(6, 1usize), (3, 2), (1, 5)]);
            let methods: Vec<(usize, HandlerDesc)> = ms
                .into_iter()
                .take(k)
                .map(|m| {
                    let nl = *rng.pick_weighted(&[(6, 0usize), (3, 1), (2, 2)]);
                    let local = (0..nl).map(|_| FangDesc { id: ids.fang(), raw: rng.bool() }).collect();
                    (m, HandlerDesc { id: ids.handler(), kind: HKind::Req, local })
                })
                .collect();
            used.push(route.clone());
            items.push(ItemDesc::Routes { route, methods });
        }
    }
    AppDesc { id, fangs, items }
}

#[derive(Clone, Debug)]
struct Req {
    method: &'static str,
    path: String,
    early: Vec<u32>,
    label: &'static str,
}

fn inst(route: &RouteT, rng: &mut Rng) -> Vec<String> {
    route
        .iter()
        .map(|s| match s {
            Seg::S(x) => x.clone(),
            Seg::P(_) => rng.pick(&["1", "abc", "users2", "x.y", "%41", "zz-9", "A"]).to_string(),
        })
        .collect()
}
fn join(segs: &[String]) -> String {
    if segs.is_empty() {
        "/".into()
    } else {
        segs.iter().map(|s| format!("/{s}")).collect()
    }
}

fn gen_requests(rng: &mut Rng, routes: &[FlatRoute], apps: &[FlatApp]) -> Vec<Req> {
    let mut out = vec![];
    let all_fangs: Vec<u32> = apps.iter().flat_map(|a| a.fangs.iter().map(|f| f.id)).chain(routes.iter().flat_map(|r| r.handler.local.iter().map(|f| f.id))).collect();
    let mut early = |rng: &mut Rng| -> Vec<u32> {
        if all_fangs.is_empty() || rng.chance(2, 3) {
            vec![]
        } else {
            let n = rng.range(1, 2);
            (0..n).map(|_| *rng.pick(&all_fangs)).collect()
        }
    };
    let mut shapes: Vec<RouteT> = vec![];
    for r in routes {
        if !shapes.contains(&r.full) {
            shapes.push(r.full.clone());
        }
    }
    for s in &shapes {
        let p = join(&inst(s, rng));
        for m in web::METHODS {
            out.push(Req { method: m, path: p.clone(), early: early(rng), label: "route" });
        }
        out.push(Req { method: "GET", path: format!("{p}/zzz"), early: early(rng), label: "below-route" });
    }
    for a in apps {
        let segs = inst(&a.prefix, rng);
        let p = join(&segs);
        let ms: Vec<&'static str> = vec!["GET", *rng.pick(&web::METHODS), *rng.pick(&web::METHODS)];
        for m in ms {
            out.push(Req { method: m, path: p.clone(), early: early(rng), label: "at-mount" });
            out.push(Req { method: m, path: if segs.is_empty() { "/".into() } else { format!("{p}/") }, early: early(rng), label: "at-mount-slash" });
            out.push(Req { method: m, path: format!("{}/zzz", if segs.is_empty() { "" } else { &p }), early: early(rng), label: "miss-inside" });
            out.push(Req { method: m, path: format!("{}/zzz/y/x", if segs.is_empty() { "" } else { &p }), early: early(rng), label: "deep-miss-inside" });
            out.push(Req { method: m, path: format!("{}//x", if segs.is_empty() { "" } else { &p }), early: early(rng), label: "empty-seg-inside" });
            if !segs.is_empty() {
                let mut s = segs.clone();
                let l = s.len() - 1;
                if matches!(a.prefix[l], Seg::S(_)) {
                    s[l] = format!("{}{}", s[l], rng.pick(&["2", "x", "-", "."]));
                    out.push(Req { method: m, path: join(&s), early: early(rng), label: "just-outside-extended" });
                    s.push("zzz".into());
                    out.push(Req { method: m, path: join(&s), early: early(rng), label: "just-outside-extended" });
                    let mut s = segs.clone();
                    if s[l].len() > 1 {
                        s[l].pop();
                        out.push(Req { method: m, path: join(&s), early: early(rng), label: "just-outside-truncated" });
                    }
                }
            }
        }
    }
    for _ in 0..6 {
        let d = rng.below(4);
        let segs: Vec<String> = (0..d).map(|_| rng.pick(&STATIC_NAMES).to_string()).collect();
        out.push(Req { method: *rng.pick(&web::METHODS), path: join(&segs), early: early(rng), label: "random" });
    }
    out
}

/* ------------------------------ reference ------------------------------ */

fn seg_matches(p: &RouteT, segs: &[String]) -> bool {
    p.len() <= segs.len()
        && p.iter().zip(segs).all(|(r, s)| match r {
            Seg::S(x) => x == s,
            Seg::P(_) => !s.is_empty(),
        })
}

/// the applications whose mount prefix the path lies under, outermost first
fn app_chain<'a>(apps: &'a [FlatApp], segs: &[String]) -> Vec<&'a FlatApp> {
    let mut v: Vec<&FlatApp> = apps.iter().filter(|a| seg_matches(&a.prefix, segs)).collect();
    v.sort_by_key(|a| a.chain.len());
    // by the side condition they form one chain; keep the consistent prefix chain only
    let mut out: Vec<&FlatApp> = vec![];
    for a in v {
        if out.last().map(|l| a.chain.len() == l.chain.len() + 1 && a.chain[..l.chain.len()] == l.chain[..]).unwrap_or(a.chain.len() == 1) {
            out.push(a);
        }
    }
    out
}

fn expected_trace(routes: &[FlatRoute], apps: &[FlatApp], rq: &Req) -> (Vec<Ev>, u16) {
    let segs = path_segments(&rq.path);
    let chain = app_chain(apps, &segs);
    let mut order: Vec<u32> = chain.iter().flat_map(|a| a.fangs.iter().map(|f| f.id)).collect();
    let hit = if rq.method == "OPTIONS" { None } else { ideal(routes, rq.method, &segs) };
    if let Some(i) = hit {
        order.extend(routes[i].handler.local.iter().map(|f| f.id));
    }
    let mut evs = vec![];
    let mut entered = vec![];
    let mut status = if hit.is_some() { 200 } else { 404 };
    let mut cut = false;
    for f in &order {
        if rq.early.contains(f) {
            evs.push(Ev::Early(*f));
            status = 418;
            cut = true;
            break;
        }
        evs.push(Ev::Enter(*f));
        entered.push(*f);
    }
    if !cut {
        if let Some(i) = hit {
            let ps: Vec<String> = routes[i]
                .full
                .iter()
                .zip(&segs)
                .filter_map(|(r, s)| if let Seg::P(_) = r { Some(String::from_utf8(crate::httpref::percent_decode_strict(s.as_bytes()).unwrap()).unwrap()) } else { None })
                .collect();
            evs.push(Ev::Handler(routes[i].handler.id, ps));
        }
    }
    for f in entered.iter().rev() {
        evs.push(Ev::Leave(*f));
    }
    (evs, status)
}

/* ------------------------------ defect model of the known compression finding (kept for attribution if not repaired) ------------------------------ */

pub fn run(args: &Args, rep: &mut Report) {
    let small = args.flag("small").is_some();
    if args.shard == 0 && args.start == 0 {
        witnesses(args, rep);
    }
    let mut case = args.shard;
    while case < args.budget {
        if case >= args.start {
            rep.begin(case);
            let mut rng = Rng::derive(args.seed, 4, case);
            let mut ids = IdGen::new();
            let app = gen_app(&mut rng, &mut ids, 0, 2);
            let (routes, apps) = flatten(&app);
            let mut reqs = gen_requests(&mut rng, &routes, &apps);
            if small {
                reqs = reqs.into_iter().step_by(5).collect();
            }
            check_app(args, rep, case, &app, &reqs, if small { &[10] } else { &[0, 1, 2, 10] });
            rep.end(case);
        }
        case += args.nshards;
    }
}

fn witnesses(args: &Args, rep: &mut Report) {
    // parent with one fang mounting a child with one fang at /api (only the child below the root)
    let h = |id| HandlerDesc { id, kind: HKind::Req, local: vec![] };
    let child = AppDesc { id: 2, fangs: vec![FangDesc { id: 2, raw: false }], items: vec![ItemDesc::Routes { route: vec![Seg::S("x".into())], methods: vec![(0, h(1))] }] };
    let app = AppDesc { id: 1, fangs: vec![FangDesc { id: 1, raw: false }], items: vec![ItemDesc::Mount { prefix: vec![Seg::S("api".into())], app: child }] };
    let reqs = vec![
        Req { method: "GET", path: "/api/x".into(), early: vec![], label: "witness" },
        Req { method: "GET", path: "/other".into(), early: vec![], label: "witness" },
        Req { method: "GET", path: "/api/zzz".into(), early: vec![], label: "witness" },
    ];
    check_app(args, rep, u64::MAX, &app, &reqs, &[0]);
}

fn order_fn(kind: u8, seed: u64) -> impl Fn(u32, usize) -> Vec<usize> {
    move |app_id, n| {
        let mut v: Vec<usize> = (0..n).collect();
        match kind {
            0 => {}
            1 => v.reverse(),
            _ => Rng::derive(seed, 78, app_id as u64).shuffle(&mut v),
        }
        v
    }
}

fn depth_of(app: &AppDesc) -> usize {
    1 + app.items.iter().map(|i| if let ItemDesc::Mount { app, .. } = i { depth_of(app) } else { 0 }).max().unwrap_or(0)
}

fn check_app(args: &Args, rep: &mut Report, case: u64, app: &AppDesc, reqs: &[Req], orders: &[u8]) {
    let (routes, apps) = flatten(app);
    let desc = json!({
        "apps": apps.iter().map(|a| format!("app{} at {} fangs {:?}", a.id, route_literal(&a.prefix), a.fangs.iter().map(|f| f.id).collect::<Vec<_>>())).collect::<Vec<_>>(),
        "routes": routes.iter().map(|r| format!("{} {} -> h{} local {:?} (app{})", ROUTE_METHODS[r.method], route_literal(&r.full), r.handler.id, r.handler.local.iter().map(|f| f.id).collect::<Vec<_>>(), r.apps.last().unwrap())).collect::<Vec<_>>(),
    });
    let shape = crate::rng::fnv(format!("{:?}", apps.iter().map(|a| (a.chain.len(), a.fangs.len(), a.prefix.len())).collect::<Vec<_>>()).as_bytes());
    rep.max("max_depth", depth_of(app) as u64);
    for &ok in orders {
        // order 10: every eligible application of the tree goes through the real tuple API `Ohkami::new((f1.., r1..))`
        if ok == 10 {
            rep.count("apps_built_with_tuple_api_where_eligible");
        }
        let router = match catch(|| hook::Router::new(if ok == 10 { build_opts(app, &order_fn(2, args.seed ^ case), true) } else { build(app, &order_fn(ok, args.seed ^ case)) })) {
            Ok(r) => r,
            Err(p) => {
                rep.eval();
                rep.violation("C04/valid-config-refused", &format!("configuration satisfying the side condition refused at start-up: {p}"), json!({"case_index": case, "app": desc, "order": ok, "panic": p}));
                continue;
            }
        };
        rep.count("apps_built");
        for rq in reqs {
            rep.eval();
            {
                // requests on which C01's known no-back-tracking finding changes the dispatched route are C01's business
                let segs = path_segments(&rq.path);
                let mounts: Vec<RouteT> = apps.iter().map(|a| a.prefix.clone()).collect();
                if rq.method != "OPTIONS" && ideal(&routes, rq.method, &segs) != greedy(&routes, &mounts, rq.method, &segs) {
                    rep.count("skipped:c01-no-backtracking");
                    continue;
                }
            }
            let (exp, exp_status) = expected_trace(&routes, &apps, rq);
            trace::clear();
            let early_val = rq.early.iter().map(|x| x.to_string()).collect::<Vec<_>>().join(",");
            let mut hs = vec![("Host", "t")];
            if !rq.early.is_empty() {
                hs.push((EARLY_HEADER, early_val.as_str()));
            }
            let bytes = web::build_request(rq.method, &rq.path, &hs, b"");
            let step = web::oneshot(&router, &bytes);
            let got = trace::take();
            let status = match &step {
                Step::Handled(b) | Step::Refused(b) => parse_response(b, rq.method == "HEAD").map(|r| r.status).unwrap_or(0),
                _ => 0,
            };
            let segs = path_segments(&rq.path);
            let n_apps = app_chain(&apps, &segs).len();
            let class = format!("{}:{}apps{}", rq.label, n_apps, if exp_status == 418 { ":early" } else { "" });
            rep.count(&format!("label:{}", rq.label));
            if exp_status == 418 {
                rep.count("early_answers");
            }
            if n_apps >= 2 {
                rep.count("requests_under_2plus_apps");
                rep.distinct(&format!("{shape}:{class}:{}", rq.method));
            } else if rq.label == "miss-inside" || rq.label.starts_with("just-outside") {
                rep.distinct(&format!("{shape}:{class}:{}", rq.method));
            }
            if got != exp || status != exp_status {
                let kind = diff_kind(&exp, &got, status, exp_status);
                rep.violation(&format!("C04/{kind}"), &format!("{} {} early={:?}: trace [{}] status {}, expected [{}] status {}", rq.method, rq.path, rq.early, trace::show(&got), status, trace::show(&exp), exp_status),
                    json!({"case_index": case, "app": desc, "order": ok, "method": rq.method, "path": rq.path, "early": rq.early, "label": rq.label, "expected": trace::show(&exp), "observed": trace::show(&got), "expected_status": exp_status, "observed_status": status, "step": step.kind()}));
            } else if rep.want_sample() && n_apps >= 2 && !exp.is_empty() {
                rep.sample(json!({"apps": desc["apps"], "request": format!("{} {}", rq.method, rq.path), "early": rq.early, "trace": trace::show(&got), "status": status}));
            }
        }
    }
}

/// coarse kind of disagreement, part of the signature
fn diff_kind(exp: &[Ev], got: &[Ev], status: u16, _exp_status: u16) -> &'static str {
    let ids = |v: &[Ev]| -> Vec<u32> {
        let mut x: Vec<u32> = v.iter().filter_map(|e| match e { Ev::Enter(i) | Ev::Early(i) => Some(*i), _ => None }).collect();
        x.sort();
        x
    };
    if status == 0 {
        "transport"
    } else if got == exp {
        "status"
    } else if ids(exp) == ids(got) {
        let h = |v: &[Ev]| v.iter().filter(|e| matches!(e, Ev::Handler(..))).cloned().collect::<Vec<_>>();
        if h(exp) != h(got) { "handler" } else { "order" }
    } else if ids(got).iter().all(|i| ids(exp).contains(i)) {
        "fang-missing"
    } else if ids(exp).iter().all(|i| ids(got).contains(i)) {
        "fang-out-of-scope"
    } else {
        "scope"
    }
}
