//! C02 – request parsing: the parsed `Request` (through every accessor) against the reference parser;
//! malformed bytes must be refused.

use crate::httpref::parse_response;
use crate::memconn::{End, Seg};
use crate::report::{catch, Args, Report};
use crate::reqref::*;
use crate::rng::Rng;
use crate::web::{self, Step};
use ohkami::__verif__ as hook;
use ohkami::{Ohkami, Request};
use serde_json::json;

macro_rules! typed_accessors {
    ($( $idx:literal $m:ident ),* $(,)?) => {
        fn typed(req: &Request, idx: usize) -> Option<String> {
            match idx {
                $( $idx => req.headers.$m().map(|s| s.to_string()), )*
                _ => unreachable!(),
            }
        }
    };
}
typed_accessors! {
    0 Accept, 1 AcceptEncoding, 2 AcceptLanguage, 3 AccessControlRequestHeaders, 4 AccessControlRequestMethod, 5 Authorization, 6 CacheControl, 7 Connection, 8 ContentDisposition,
    9 ContentEncoding, 10 ContentLanguage, 11 ContentLength, 12 ContentLocation, 13 ContentType, 14 Cookie, 15 Date, 16 Expect, 17 Forwarded, 18 From, 19 Host, 20 IfMatch, 21 IfModifiedSince,
    22 IfNoneMatch, 23 IfRange, 24 IfUnmodifiedSince, 25 Link, 26 MaxForwards, 27 Origin, 28 ProxyAuthorization, 29 Range, 30 Referer, 31 SecFetchDest, 32 SecFetchMode, 33 SecFetchSite,
    34 SecFetchUser, 35 SecWebSocketExtensions, 36 SecWebSocketKey, 37 SecWebSocketProtocol, 38 SecWebSocketVersion, 39 TE, 40 Trailer, 41 TransferEncoding, 42 UserAgent, 43 Upgrade,
    44 UpgradeInsecureRequests, 45 Via,
}

/// everything observable through the public accessors; every accessor called under catch_unwind
#[derive(Debug, Clone)]
pub struct Snapshot {
    pub method: String,
    pub path_str: Result<String, String>,
    pub path_deref: Result<String, String>,
    pub query: Result<Vec<(String, String)>, String>,
    /// (name asked, Result<Option<value>>)
    pub get: Vec<(String, Result<Option<String>, String>)>,
    pub typed: Vec<(usize, Result<Option<String>, String>)>,
    pub payload: Option<Vec<u8>>,
    pub debug: Result<usize, String>,
}

pub fn snapshot(req: &Request, ask: &[String]) -> Snapshot {
    let mut s = Snapshot {
        method: req.method.as_str().to_string(),
        path_str: catch(|| req.path.str().into_owned()),
        path_deref: catch(|| (&*req.path).to_string()),
        query: catch(|| req.query.iter().map(|(k, v)| (k.into_owned(), v.into_owned())).collect()),
        get: vec![],
        typed: vec![],
        payload: None,
        debug: Ok(0),
    };
    for n in ask {
        s.get.push((n.clone(), catch(|| req.headers.get(n).map(|v| v.to_string()))));
    }
    for i in 0..STD_REQ_HEADERS.len() {
        s.typed.push((i, catch(|| typed(req, i))));
    }
    s.payload = req.payload().map(|b| b.to_vec());
    s.debug = catch(|| format!("{req:?}").len());
    s
}

pub fn run(args: &Args, rep: &mut Report) {
    let small = args.flag("small").is_some();
    crate::reqref::SMALL.store(small, std::sync::atomic::Ordering::Relaxed);
    let router = hook::Router::new(Ohkami::new(()));
    if args.shard == 0 && args.start == 0 {
        witnesses(rep, &router);
    }
    let mut case = args.shard;
    while case < args.budget {
        if case >= args.start {
            rep.begin(case);
            let mut rng = Rng::derive(args.seed, 2, case);
            let r = gen_request(&mut rng, true);
            let malformed = rng.chance(2, 5);
            if malformed {
                let kind = *rng.pick(&MUTATIONS);
                let bytes = mutate(&mut rng, &r, kind);
                check(rep, case, &router, &bytes, Some(kind), &r.features);
            } else if rng.chance(1, 6) {
                // bytes after the end of the request in the same first read (stray CRLF, a pipelined request, padding): what becomes
                // of them is C06's question, but the first request must still be parsed faithfully: payload = exactly Content-Length bytes
                let tail: &[u8] = *rng.pick(&[&b"\r\n"[..], b"GET /next?token=42 HTTP/1.1\r\nHost: t\r\n\r\n", b"\0\0\0\0", b"x", b"POST /n HTTP/1.1\r\nContent-Length: 3\r\n\r\nabc"]);
                let bytes = [r.bytes(), tail.to_vec()].concat();
                rep.count("class:valid+trailing-bytes");
                check(rep, case, &router, &bytes, None, &format!("{}|trailing", r.features));
            } else {
                check(rep, case, &router, &r.bytes(), None, &r.features);
            }
            if small && case > 25 * args.nshards {
                break;
            }
            rep.end(case);
        }
        case += args.nshards;
    }
}

fn witnesses(rep: &mut Report, router: &hook::Router) {
    for (b, k) in [
        (&b"GET /abc\r\n\r\n"[..], Some("no-second-space")),
        (&b"POST /\r\necp HTTP/1.1\r\nContent-Length: 3\r\n\r\nabc"[..], Some("ctl-in-target")),
        (&b"GET /a\xc2%BC HTTP/1.1\r\nHost: t\r\n\r\n"[..], Some("non-utf8-path")),
        (&b"POST /p HTTP/1.1\r\nContent-Length: 000000000003\r\n\r\nabc"[..], None),
        (&b"POST /a HTTP/1.1\r\nContent-Length: abc\r\n\r\nhello"[..], Some("cl-alpha")),
        (&b"POST /a HTTP/1.1\r\nContent-length: 5\r\n\r\nhello"[..], None),
        (&b"POST /a HTTP/1.1\r\nContent-Length: 5\r\n\r\n\0ello"[..], None),
        (&b"GET /a HTTP/1.1\r\nHost: example.com\r\n\r\n"[..], None),
        (&b"GET /a HTTP/1.1\r\nX-A: 1\r\nx-a: 2\r\n\r\n"[..], None),
        (&b"GET /a HTTP/1.1\r\nX-Bin: \xff\r\n\r\n"[..], Some("non-utf8-header-value")),
    ] {
        check(rep, u64::MAX, router, b, k, "witness");
    }
}

/// does the head (read leniently) announce, with a plain decimal Content-Length, more body bytes than follow the blank line?
fn announced_body_outstanding(bytes: &[u8]) -> bool {
    let Some(end) = bytes.windows(4).position(|w| w == b"\r\n\r\n") else { return false };
    let have = bytes.len() - end - 4;
    bytes[..end].split(|&b| b == b'\n').any(|line| {
        let line = line.strip_suffix(b"\r").unwrap_or(line);
        let Some(c) = line.iter().position(|&b| b == b':') else { return false };
        line[..c].eq_ignore_ascii_case(b"content-length")
            && std::str::from_utf8(&line[c + 1..]).ok().and_then(|v| v.trim().parse::<usize>().ok()).is_some_and(|n| n > have)
    })
}

fn casings(name: &str) -> Vec<String> {
    let mut v = vec![name.to_string(), name.to_ascii_lowercase(), name.to_ascii_uppercase()];
    // canonical Title-Case
    let mut t = String::new();
    let mut up = true;
    for c in name.chars() {
        t.push(if up { c.to_ascii_uppercase() } else { c.to_ascii_lowercase() });
        up = c == '-';
    }
    v.push(t);
    v.sort();
    v.dedup();
    v
}

/// How the bytes reach the reader. What fits the first read (1 KiB) always arrives together - the head has to, by ohkami's
/// documented design. What follows arrives the way a socket delivers it: in one piece, or in several pieces of any size with
/// or without a pause between them. The cut points are a function of the bytes, so a replay delivers the same way.
pub fn delivery(bytes: &[u8]) -> Vec<Seg> {
    const FIRST: usize = 1024;
    if bytes.len() <= FIRST { return vec![Seg::Data(bytes.to_vec())] }
    let mut h: u64 = 0xcbf29ce484222325;
    for b in bytes.iter().take(64).chain(bytes.iter().rev().take(16)) { h = (h ^ *b as u64).wrapping_mul(0x100000001b3) }
    h ^= bytes.len() as u64;
    let mut next = || { h ^= h << 13; h ^= h >> 7; h ^= h << 17; h };
    if next() % 3 == 0 { return vec![Seg::Data(bytes.to_vec())] }
    let mut v = vec![Seg::Data(bytes[..FIRST].to_vec())];
    let mut at = FIRST;
    while at < bytes.len() {
        let left = bytes.len() - at;
        let n = [1usize, 2, 17, 300, 1024, 1500, 4096, left][(next() % 8) as usize].min(left);
        if next() % 3 == 0 { v.push(Seg::Pending) }
        v.push(Seg::Data(bytes[at..at + n].to_vec()));
        at += n;
        if v.len() > 64 { v.push(Seg::Data(bytes[at..].to_vec())); break }
    }
    v
}

pub fn check(rep: &mut Report, case: u64, router: &hook::Router, bytes: &[u8], mutation: Option<&str>, features: &str) {
    rep.eval();
    let reference = parse_request(bytes);
    let in_subset = reference.is_ok();
    // names to ask for: every name of the request in several casings (if the head is readable at all)
    let ask: Vec<String> = match &reference {
        Ok(r) => r.headers.iter().flat_map(|(k, _)| casings(k)).collect(),
        Err(_) => vec!["host".into(), "Content-Length".into(), "X-Bin".into(), "X-Nul".into()],
    };
    let mut snap: Option<Snapshot> = None;
    let s = web::session(router, delivery(bytes), End::Hang, 1, |req| snap = Some(snapshot(req, &ask)));
    let step = s.steps.first().cloned().unwrap_or(Step::Closed);
    let class = match (&mutation, in_subset) {
        (None, true) => "valid".to_string(),
        (Some(k), false) => format!("malformed:{k}"),
        (Some(k), true) => format!("mutant-still-valid:{k}"),
        (None, false) => "generator-outside-subset".to_string(),
    };
    rep.count(&format!("class:{}", class.split(':').next().unwrap()));
    if let Some(k) = mutation {
        rep.count(&format!("mutation:{k}"));
    }
    rep.distinct(&format!("{features}|{}", mutation.unwrap_or("-")));
    rep.count(&format!("outcome:{}", step.kind()));
    if bytes.len() > 1024 { rep.count(if delivery(bytes).len() > 2 { "delivery:rest-in-several-pieces" } else { "delivery:rest-in-one-piece" }) }
    let cj = |extra: serde_json::Value| json!({"case_index": case, "class": class, "input_hex": crate::rng::hex(&bytes[..bytes.len().min(4000)]), "input": crate::rng::show(bytes), "outcome": step.kind(), "detail": extra});
    if class == "generator-outside-subset" {
        rep.violation("C02/harness:generator-outside-subset", &format!("generator produced a request the reference refuses: {:?}", reference.as_ref().err()), cj(json!(null)));
        return;
    }
    // never, for any input
    match &step {
        Step::Panicked(p) => {
            rep.violation(&format!("C02/panic@{}", crate::report::panic_site(p)), &format!("reader/handler panicked ({class}): {p}"), cj(json!({"panic": p})));
            return;
        }
        Step::Budget => {
            rep.violation("C02/harness:budget", "executor budget exhausted", cj(json!(null)));
            return;
        }
        _ => {}
    }
    if let Some(sn) = &snap {
        let mut bad: Vec<String> = vec![];
        if let Err(p) = &sn.path_str { bad.push(format!("path.str(): {p}")) }
        if let Err(p) = &sn.path_deref { bad.push(format!("&*path: {p}")) }
        if let Err(p) = &sn.query { bad.push(format!("query.iter(): {p}")) }
        if let Err(p) = &sn.debug { bad.push(format!("Debug: {p}")) }
        for (n, r) in &sn.get { if let Err(p) = r { bad.push(format!("headers.get({n:?}): {p}")) } }
        for (i, r) in &sn.typed { if let Err(p) = r { bad.push(format!("headers.{}(): {p}", STD_REQ_HEADERS[*i])) } }
        if !bad.is_empty() {
            let site = crate::report::panic_site(bad[0].split(": ").nth(1).map(|_| &bad[0][..]).unwrap_or(""));
            rep.violation(&format!("C02/accessor-panic@{site}"), &format!("accessor of the parsed request panics ({class}): {}", bad[0]), cj(json!({"accessors": bad})));
            return;
        }
    }
    match reference {
        Ok(r) => {
            // large heads may be refused (every server has a head limit)
            let big_head = r.head_len > 1024;
            match &step {
                Step::Stuck => {
                    if r.body_short {
                        rep.count("stuck-waiting-for-announced-body");
                    } else {
                        rep.violation("C02/stuck-with-all-bytes-delivered", &format!("reader waits although all {} bytes were delivered ({class})", bytes.len()), cj(json!({"delivered": s.delivered})));
                    }
                }
                Step::Refused(_) | Step::Closed if big_head => rep.count("big-head-refused"),
                Step::Refused(b) => {
                    let st = parse_response(b, false).map(|x| x.status).unwrap_or(0);
                    rep.violation(&format!("C02/valid-refused:{st}"), &format!("request of the subset refused with {st}"), cj(json!({"status": st})));
                }
                Step::Closed => rep.violation("C02/valid-closed", "request of the subset answered by closing", cj(json!(null))),
                Step::Handled(_) => {
                    if r.body_short {
                        rep.violation("C02/handled-before-body-arrived", "request handled although the announced body was not delivered", cj(json!(null)));
                        return;
                    }
                    let sn = snap.as_ref().unwrap();
                    let mut diffs: Vec<(String, String)> = vec![];
                    if sn.method != r.method { diffs.push(("method".into(), format!("{} vs {}", sn.method, r.method))) }
                    // ohkami normalises one trailing '/' away; that is a *separator* on the wire - an escaped slash (%2F) at the end is data and stays
                    let exp_path = { let p = if r.raw_path.ends_with(b"/") { r.path.strip_suffix('/').unwrap_or(&r.path) } else { &r.path[..] }; if p.is_empty() { "/".to_string() } else { p.to_string() } };
                    if sn.path_str.as_ref().ok() != Some(&exp_path) { diffs.push(("path".into(), format!("path.str() = {:?}, expected {:?}", sn.path_str, exp_path))) }
                    if let Some(q) = r.query_pairs() {
                        if sn.query.as_ref().ok() != Some(&q) { diffs.push(("query".into(), format!("query.iter() = {:?}, expected {:?}", sn.query, q))) }
                    }
                    for (n, got) in &sn.get {
                        let exp = r.header(n);
                        if got.as_ref().ok() != Some(&exp) {
                            let std = STD_REQ_HEADERS.iter().any(|s| s.eq_ignore_ascii_case(n));
                            let exact = STD_REQ_HEADERS.iter().any(|s| s == n || s.to_ascii_lowercase() == *n);
                            let kind = if std { if exact { "get-standard" } else { "get-standard-other-case" } } else { "get-custom" };
                            diffs.push((kind.into(), format!("headers.get({n:?}) = {:?}, expected {:?}", got, exp)));
                        }
                    }
                    for (i, got) in &sn.typed {
                        let exp = r.header(STD_REQ_HEADERS[*i]);
                        if got.as_ref().ok() != Some(&exp) { diffs.push(("typed-accessor".into(), format!("headers.{}() = {:?}, expected {:?}", STD_REQ_HEADERS[*i], got, exp))) }
                    }
                    let got_body = sn.payload.clone().unwrap_or_default();
                    if got_body != r.body { diffs.push(("payload".into(), format!("payload {} bytes {:?}.., expected {} bytes {:?}..", got_body.len(), crate::rng::show(&got_body[..got_body.len().min(24)]), r.body.len(), crate::rng::show(&r.body[..r.body.len().min(24)])))) }
                    if diffs.is_empty() {
                        rep.count("faithful");
                        if rep.want_sample() && !r.body.is_empty() {
                            rep.sample(json!({"input": crate::rng::show(&bytes[..bytes.len().min(300)]), "outcome": "parsed", "method": sn.method, "path": sn.path_str.as_ref().ok(), "payload_len": got_body.len()}));
                        }
                    }
                    let mut seen_kinds = vec![];
                    for (k, d) in diffs {
                        if !seen_kinds.contains(&k) {
                            seen_kinds.push(k.clone());
                            rep.violation(&format!("C02/unfaithful:{k}"), &d, cj(json!({"diff": d})));
                        }
                    }
                }
                _ => {}
            }
        }
        Err(why) => {
            // outside the subset. The kinds the statement lists (truncation, request line, separators, Content-Length, non-UTF-8,
            // NUL) and Transfer-Encoding (unknown framing) must be refused or the connection closed; where only the edge of the
            // subset is fuzzy (odd header-name characters, whitespace around a value, raw non-ASCII target bytes, bare LF) a lenient
            // parse is tolerated as long as nothing panics or hangs (checked above)
            let k = mutation.unwrap_or("?");
            let (ekind, why) = why.split_once('|').map(|(a, b)| (a.to_string(), b.to_string())).unwrap_or(("?".into(), why.clone()));
            // "escape": a `%` in the path that is not followed by two hex digits - the statement's list of malformed inputs does not
            // name it and servers commonly pass it through literally
            let lenient = matches!(ekind.as_str(), "header-name" | "value-ws" | "target-bytes" | "line-end" | "escape");
            let truncation = ekind == "truncated";
            if lenient {
                rep.count(&format!("lenient-kind:{ekind}"));
                if matches!(step, Step::Handled(_)) {
                    rep.count("lenient-parse-tolerated");
                    return;
                }
                // a leniently read head may announce more body bytes than were delivered: waiting for them is legitimate
                if matches!(step, Step::Stuck) && announced_body_outstanding(bytes) {
                    rep.count("lenient-parse-waits-for-announced-body");
                    return;
                }
            }
            match &step {
                Step::Refused(b) => match parse_response(b, false) {
                    Ok(x) if x.status >= 400 => rep.count("refused-with-error"),
                    Ok(x) => rep.violation(&format!("C02/refusal-status:{}", x.status), &format!("malformed input answered with status {}", x.status), cj(json!({"why_malformed": why}))),
                    Err(e) => rep.violation("C02/refusal-malformed-response", &e, cj(json!(null))),
                },
                Step::Closed => rep.count("closed"),
                Step::Stuck if truncation || k == "garbage" => rep.count("stuck-on-truncated-input"),
                Step::Stuck => {
                    // waiting is legitimate only while announced bytes are outstanding; for a head that is malformed it is not
                    rep.violation(&format!("C02/stuck-on-malformed:{k}"), &format!("reader waits for input on malformed bytes ({why})"), cj(json!({"why_malformed": why, "delivered": s.delivered})));
                }
                Step::Handled(_) => {
                    rep.violation(&format!("C02/malformed-accepted:{k}"), &format!("malformed input ({why}) was parsed and handled"), cj(json!({"why_malformed": why, "snapshot_method": snap.as_ref().map(|s| s.method.clone()), "payload_len": snap.as_ref().and_then(|s| s.payload.as_ref().map(|p| p.len()))})));
                }
                _ => {}
            }
        }
    }
}
