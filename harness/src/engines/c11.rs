//! C11 – Cookie header decoding (typed and iterator) and Set-Cookie building.

use crate::httpref::{parse_response, percent_decode_strict, percent_encode_all};
use crate::report::{catch, Args, Report};
use crate::rng::Rng;
use crate::web;
use ohkami::__verif__ as hook;
use ohkami::Response;
use ohkami_lib::serde_cookie::from_str;
use serde::Deserialize;
use serde_json::json;
use std::borrow::Cow;

const KNOWN: [&str; 6] = ["session", "id", "theme", "_ga", "a.b-c", "X!tok"];
const TOKEN: &[u8] = b"abcdefghijklmnopqrstuvwxyzABCDEFGHIJKLMNOPQRSTUVWXYZ0123456789!#$&'*+-.^_`|~";

#[derive(Deserialize, Debug, PartialEq)]
struct J1 {
    session: String,
    id: u32,
}
#[derive(Deserialize, Debug, PartialEq)]
struct J2 {
    theme: Option<String>,
    session: String,
}
#[derive(Deserialize, Debug, PartialEq)]
struct J3<'a> {
    #[serde(rename = "_ga", borrow)]
    ga: Cow<'a, str>,
    #[serde(rename = "a.b-c")]
    abc: String,
    #[serde(rename = "X!tok")]
    tok: Option<String>,
}

fn is_cookie_octet(b: u8) -> bool {
    matches!(b, 0x21 | 0x23..=0x2b | 0x2d..=0x3a | 0x3c..=0x5b | 0x5d..=0x7e)
}

fn gen_value(rng: &mut Rng) -> String {
    match rng.below(9) {
        0 => String::new(),
        1 => "abc123".into(),
        2 => "dGVzdA==".into(), // base64 with padding: '=' is a cookie-octet
        3 => "a=b=c".into(),
        4 => "Hello, 世界!".into(),
        5 => rng.unicode_string(10),
        6 => "Path=/; Secure".into(), // looks like directives
        7 => rng.string_over(b"abcXYZ019!#$&'()*+-./:<=>?@[]^_`{|}~", 1, 16),
        _ => rng.string_over(b"abc019", 1, 24),
    }
}

/// wire form of a value: (text, encoding name)
fn encode_value(rng: &mut Rng, v: &str) -> (String, &'static str) {
    let plain_ok = v.bytes().all(is_cookie_octet) && !v.contains('%');
    let body = if plain_ok && rng.chance(2, 3) { (v.to_string(), "plain") } else { (percent_encode_all(v.as_bytes()), "percent") };
    if rng.chance(1, 4) {
        (format!("\"{}\"", body.0), if body.1 == "plain" { "quoted-plain" } else { "quoted-percent" })
    } else {
        body
    }
}

fn cookie_case(rep: &mut Report, case: u64, rng: &mut Rng, router: &hook::Router) {
    // which typed target
    let target = rng.below(3);
    let mut jar: Vec<(String, String)> = vec![]; // (name, value)
    match target {
        0 => {
            jar.push(("session".into(), gen_value(rng)));
            jar.push(("id".into(), (rng.u64() as u32).to_string()));
        }
        1 => {
            if rng.bool() {
                // an empty value for an Option field is None - wherever the pair stands in the header, the last position included
                jar.push(("theme".into(), if rng.chance(1, 4) { String::new() } else { let v = gen_value(rng); if v.is_empty() { "dark".into() } else { v } }));
            }
            jar.push(("session".into(), gen_value(rng)));
        }
        _ => {
            jar.push(("_ga".into(), gen_value(rng)));
            jar.push(("a.b-c".into(), gen_value(rng)));
            if rng.bool() {
                jar.push(("X!tok".into(), { let v = gen_value(rng); if v.is_empty() { "t".into() } else { v } }));
            }
        }
    }
    // unknown cookies
    for _ in 0..rng.below(3) {
        let n = rng.string_over(TOKEN, 1, 8);
        if !KNOWN.contains(&n.as_str()) && !jar.iter().any(|(k, _)| *k == n) {
            jar.push((n, gen_value(rng)));
        }
    }
    rng.shuffle(&mut jar);
    let mut encs = vec![];
    let wire: Vec<(String, String)> = jar.iter().map(|(n, v)| { let (w, e) = encode_value(rng, v); encs.push(e); (n.clone(), w) }).collect();
    let header = wire.iter().map(|(n, w)| format!("{n}={w}")).collect::<Vec<_>>().join("; ");
    let val = |n: &str| jar.iter().find(|(k, _)| k == n).map(|(_, v)| v.clone());
    let mut evec: Vec<&str> = encs.clone();
    evec.sort();
    evec.dedup();
    rep.eval();
    rep.count("jars_typed");
    rep.distinct(&format!("jar:{target}:{}:{}:{}", jar.len(), evec.join("+"), jar.iter().any(|(_, v)| v.contains('='))));
    let cj = || json!({"case_index": case, "cookie_header": header, "jar": jar});
    let outcome: Result<Result<bool, String>, String> = match target {
        0 => catch(|| from_str::<J1>(&header).map(|j| j == J1 { session: val("session").unwrap(), id: val("id").unwrap().parse().unwrap() }).map_err(|e| e.to_string())),
        // an empty value for an Option field may read as None or as Some("") (`theme=` / `theme=""`): the statement does not choose
        1 => catch(|| from_str::<J2>(&header).map(|j| j == J2 { theme: val("theme"), session: val("session").unwrap() } || (val("theme").as_deref() == Some("") && j == J2 { theme: None, session: val("session").unwrap() })).map_err(|e| e.to_string())),
        _ => catch(|| from_str::<J3>(&header).map(|j| j == J3 { ga: Cow::Owned(val("_ga").unwrap()), abc: val("a.b-c").unwrap(), tok: val("X!tok") }).map_err(|e| e.to_string())),
    };
    let eqclass = if jar.iter().any(|(_, v)| v.contains('=')) { "value-with-equals" } else { "other" };
    match outcome {
        Ok(Ok(true)) => rep.count("typed_decoded_equal"),
        Ok(Ok(false)) => rep.violation("C11/typed-decoding-differs", &format!("Cookie: {header} decoded to other values than the jar"), cj()),
        Ok(Err(e)) => rep.violation(&format!("C11/typed-decoding-rejected:{eqclass}"), &format!("Cookie: {header} rejected: {e}"), cj()),
        Err(p) => rep.violation(&format!("C11/panic@{}", crate::report::panic_site(&p)), &format!("serde_cookie panicked on {header:?}: {p}"), cj()),
    }
    // ... but whichever it is, it is a function of the pair, not of where the pair stands: the same pairs with the Option field's pair
    // first and last must decode to the same value
    if target == 1 && val("theme").as_deref() == Some("") {
        rep.eval();
        rep.count("order_independence_checked_for_an_empty_option_value");
        let arrange = |last: bool| -> String {
            let mut w: Vec<&(String, String)> = wire.iter().filter(|(n, _)| n != "theme").collect();
            let t = wire.iter().find(|(n, _)| n == "theme").unwrap();
            if last { w.push(t) } else { w.insert(0, t) }
            w.iter().map(|(n, v)| format!("{n}={v}")).collect::<Vec<_>>().join("; ")
        };
        let (h_first, h_last) = (arrange(false), arrange(true));
        let a = catch(|| from_str::<J2>(&h_first).map_err(|e| e.to_string()));
        let b = catch(|| from_str::<J2>(&h_last).map_err(|e| e.to_string()));
        if a != b {
            rep.violation("C11/typed-decoding-depends-on-order", &format!("{h_first:?} -> {a:?} but {h_last:?} -> {b:?}"), cj());
        }
    }
    // the request's cookie iterator: names and wire values, in order
    rep.eval();
    rep.count("jars_iterated");
    let bytes = web::build_request("GET", "/", &[("Host", "t"), ("Cookie", &header)], b"");
    let mut got: Option<Result<Vec<(String, String)>, String>> = None;
    let _ = web::session(router, vec![crate::memconn::Seg::Data(bytes)], crate::memconn::End::Hang, 1, |req| {
        got = Some(catch(|| req.headers.Cookies().map(|(k, v)| (k.to_string(), v.to_string())).collect()));
    });
    // quotes are accepted either way (RFC 6265 does not strip them)
    let strip = |v: &str| v.strip_prefix('"').and_then(|x| x.strip_suffix('"')).unwrap_or(v).to_string();
    match got {
        Some(Ok(v)) if v == wire || v.iter().map(|(k, x)| (k.clone(), strip(x))).collect::<Vec<_>>() == wire.iter().map(|(k, x)| (k.clone(), strip(x))).collect::<Vec<_>>() => rep.count("iterator_equal"),
        Some(Ok(v)) => rep.violation(&format!("C11/iterator-differs:{eqclass}"), &format!("Cookie: {header}: iterator gave {v:?}"), cj()),
        other => rep.violation("C11/iterator-failed", &format!("Cookie: {header}: {other:?}"), cj()),
    }
    if rep.want_sample() && encs.iter().any(|e| e.starts_with("quoted")) {
        rep.sample(json!({"cookie_header": header, "jar": jar}));
    }
}

/* ------------------------------ Set-Cookie ------------------------------ */

const SC_NAMES: [&str; 5] = ["id", "session", "SID", "__Host-tok", "a.b"];

#[derive(Debug, Clone, PartialEq, Default)]
struct Directives {
    expires: Option<String>,
    max_age: Option<u64>,
    domain: Option<String>,
    path: Option<String>,
    secure: bool,
    http_only: bool,
    same_site: Option<&'static str>,
}

/// independent RFC 6265 set-cookie-string parser (strict on the grammar); returns (name, raw value, directives)
fn parse_set_cookie(line: &str) -> Result<(String, String, Directives), String> {
    let mut parts = line.split("; ");
    let pair = parts.next().ok_or("empty")?;
    let (name, value) = pair.split_once('=').ok_or("cookie-pair without '='")?;
    if name.is_empty() || !name.bytes().all(|b| TOKEN.contains(&b) || b == b'%') {
        return Err(format!("cookie-name {name:?} is not a token"));
    }
    let inner = value.strip_prefix('"').and_then(|v| v.strip_suffix('"')).unwrap_or(value);
    if !inner.bytes().all(is_cookie_octet) {
        return Err(format!("cookie-value {value:?} has bytes outside cookie-octet"));
    }
    let mut d = Directives::default();
    for av in parts {
        let (k, v) = match av.split_once('=') { Some((k, v)) => (k, Some(v)), None => (av, None) };
        if av.contains(';') || av.bytes().any(|b| b < 0x20 || b == 0x7f) {
            return Err(format!("cookie-av {av:?} contains ';' or a control character"));
        }
        match (k, v) {
            ("Expires", Some(v)) => {
                // sane-cookie-date = IMF-fixdate
                let ok = v.len() == 29 && v.ends_with(" GMT") && v.as_bytes()[3] == b',';
                if !ok || d.expires.is_some() { return Err(format!("bad or repeated Expires {v:?}")) }
                d.expires = Some(v.to_string());
            }
            ("Max-Age", Some(v)) => {
                if v.is_empty() || !v.bytes().all(|b| b.is_ascii_digit()) || d.max_age.is_some() { return Err(format!("bad or repeated Max-Age {v:?}")) }
                d.max_age = Some(v.parse::<u64>().map_err(|e| format!("Max-Age {v}: {e}"))?);
            }
            ("Domain", Some(v)) => {
                if v.is_empty() || !v.bytes().all(|b| b.is_ascii_alphanumeric() || b == b'.' || b == b'-') || d.domain.is_some() { return Err(format!("bad or repeated Domain {v:?}")) }
                d.domain = Some(v.to_string());
            }
            ("Path", Some(v)) => {
                if d.path.is_some() { return Err("repeated Path".into()) }
                d.path = Some(v.to_string());
            }
            ("Secure", None) => { if d.secure { return Err("repeated Secure".into()) } d.secure = true }
            ("HttpOnly", None) => { if d.http_only { return Err("repeated HttpOnly".into()) } d.http_only = true }
            ("SameSite", Some(v)) => {
                d.same_site = Some(match v { "Lax" => "Lax", "Strict" => "Strict", "None" => "None", _ => return Err(format!("bad SameSite {v:?}")) });
            }
            _ => return Err(format!("unknown cookie-av {av:?}")),
        }
    }
    Ok((name.to_string(), value.to_string(), d))
}

fn set_cookie_case(rep: &mut Report, case: u64, rng: &mut Rng, bits_override: Option<u8>) {
    let name = *rng.pick(&SC_NAMES);
    let value = gen_value(rng);
    let bits = bits_override.unwrap_or_else(|| rng.below(128) as u8);
    let exp = ["Wed, 21 Oct 2026 07:28:00 GMT", "Thu, 01 Jan 1970 00:00:00 GMT", "Fri, 31 Dec 9999 23:59:59 GMT"][rng.below(3)];
    let max_age = *rng.pick(&[0u64, 1, 3600, 1 << 32, u64::MAX]);
    let domain = *rng.pick(&["example.com", "sub.example.co.jp", "localhost"]);
    let path = *rng.pick(&["/", "/a/b", "/docs/Web/HTTP"]);
    let ss = rng.below(3);
    let want = Directives {
        expires: (bits & 1 != 0).then(|| exp.to_string()), max_age: (bits & 2 != 0).then_some(max_age), domain: (bits & 4 != 0).then(|| domain.to_string()), path: (bits & 8 != 0).then(|| path.to_string()),
        secure: bits & 16 != 0, http_only: bits & 32 != 0, same_site: (bits & 64 != 0).then_some(["Lax", "Strict", "None"][ss]),
    };
    rep.eval();
    rep.count("set_cookies");
    let vclass = if value.is_empty() { "empty" } else if value.bytes().all(|b| b.is_ascii_alphanumeric()) { "alnum" } else if value.is_ascii() { "ascii" } else { "unicode" };
    rep.distinct(&format!("sc:{bits}:{vclass}"));
    rep.distinct(&format!("subset:{bits}"));
    let v2 = value.clone();
    let built = catch(move || {
        let mut res = Response::OK();
        res.headers.set().SetCookie(name, v2, move |mut b| {
            if bits & 1 != 0 { b = b.Expires(exp) }
            if bits & 2 != 0 { b = b.MaxAge(max_age) }
            if bits & 4 != 0 { b = b.Domain(domain) }
            if bits & 8 != 0 { b = b.Path(path) }
            if bits & 16 != 0 { b = b.Secure() }
            if bits & 32 != 0 { b = b.HttpOnly() }
            if bits & 64 != 0 { b = match ss { 0 => b.SameSiteLax(), 1 => b.SameSiteStrict(), _ => b.SameSiteNone() } }
            b
        });
        // the crate's own accessor
        let own: Vec<(String, String, Directives)> = res.headers.SetCookie().map(|c| {
            let (n, v) = c.Cookie();
            (n.to_string(), v.to_string(), Directives { expires: c.Expires().map(|s| s.to_string()), max_age: c.MaxAge(), domain: c.Domain().map(|s| s.to_string()), path: c.Path().map(|s| s.to_string()),
                secure: c.Secure() == Some(true), http_only: c.HttpOnly() == Some(true), same_site: c.SameSite() })
        }).collect();
        (web::send_response(res), own)
    });
    let cj = |extra: serde_json::Value| json!({"case_index": case, "name": name, "value": value, "directive_bits": bits, "detail": extra});
    let (wire, own) = match built {
        Ok((Ok((w, _)), own)) => (w.concat(), own),
        Ok((Err(e), _)) => { rep.violation("C11/set-cookie-send-failed", &e, cj(json!(null))); return }
        Err(p) => { rep.violation(&format!("C11/panic@{}", crate::report::panic_site(&p)), &format!("building Set-Cookie panicked: {p}"), cj(json!(null))); return }
    };
    let lines: Vec<String> = match parse_response(&wire, false) {
        Ok(r) => r.get_all("set-cookie").into_iter().map(|s| s.to_string()).collect(),
        Err(e) => { rep.violation("C11/set-cookie-breaks-response", &format!("response with the cookie is not well-formed: {e}"), cj(json!({"wire": crate::rng::show(&wire)}))); return }
    };
    if lines.len() != 1 {
        rep.violation("C11/set-cookie-line-count", &format!("{} Set-Cookie lines for one call", lines.len()), cj(json!({"lines": lines})));
        return;
    }
    let line = &lines[0];
    match parse_set_cookie(line) {
        Err(e) => rep.violation("C11/set-cookie-grammar", &format!("{line:?} is not an RFC 6265 set-cookie-string: {e}"), cj(json!({"line": line}))),
        Ok((n, raw, d)) => {
            let dec = percent_decode_strict(raw.strip_prefix('"').and_then(|v| v.strip_suffix('"')).unwrap_or(&raw).as_bytes()).ok().and_then(|b| String::from_utf8(b).ok());
            if n != name || dec.as_deref() != Some(value.as_str()) {
                rep.violation("C11/set-cookie-value-differs", &format!("{line:?} parses back to {n}={dec:?}, set {name}={value:?}"), cj(json!({"line": line})));
            } else if d != want {
                rep.violation("C11/set-cookie-directives-differ", &format!("{line:?} parses back to {d:?}, set {want:?}"), cj(json!({"line": line})));
            } else {
                rep.count("set_cookie_reference_round_trip");
            }
        }
    }
    // the crate's own parser
    if own.len() != 1 || own[0].0 != name || own[0].1 != value || own[0].2 != want {
        rep.violation("C11/set-cookie-own-accessor-differs", &format!("headers.SetCookie() gave {own:?} for {line:?}"), cj(json!({"line": line})));
    } else {
        rep.count("set_cookie_own_round_trip");
    }
    if rep.want_sample() && bits.count_ones() >= 4 {
        rep.sample(json!({"name": name, "value": value, "line": line}));
    }
}

pub fn run(args: &Args, rep: &mut Report) {
    let small = args.flag("small").is_some();
    let router = hook::Router::new(ohkami::Ohkami::new(()));
    let mut case = args.shard;
    while case < args.budget {
        if case >= args.start {
            rep.begin(case);
            let mut rng = Rng::derive(args.seed, 11, case);
            let k = if small { 2 } else { 8 };
            for _ in 0..k {
                cookie_case(rep, case, &mut rng, &router);
            }
            for i in 0..k {
                // all 128 directive subsets are walked systematically by case index
                let b = if small { None } else { Some(((case * 8 + i as u64) % 128) as u8) };
                set_cookie_case(rep, case, &mut rng, b);
            }
            rep.end(case);
        }
        case += args.nshards;
    }
}
