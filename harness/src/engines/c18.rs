//! C18 – graceful shutdown. One child process per scenario (the Ctrl-C handler can be installed once per
//! process): the child runs the real `howl`, receives a real SIGINT and logs events with one sequence
//! counter; interleavings of the signal handler with the accept loop's poll are forced through the
//! scheduling points of hook H4. The parent judges the logs.

use crate::report::{Args, Report};
use ohkami::__verif__ as hook;
use ohkami::{Ohkami, Route};
use serde_json::{json, Value};
use std::future::Future;
use std::io::{Read, Write};
use std::net::TcpStream;
use std::pin::Pin;
use std::sync::atomic::{AtomicBool, AtomicU64, Ordering};
use std::sync::{Arc, Condvar, Mutex};
use std::task::{Context, Poll, Wake, Waker};
use std::time::{Duration, Instant};

/* =============================== child side =============================== */

#[derive(Clone, Copy, Debug, PartialEq)]
enum Op { P12, P3, S1, S2, S3 }
fn op_name(o: Op) -> &'static str { match o { Op::P12 => "p12", Op::P3 => "p3", Op::S1 => "s1", Op::S2 => "s2", Op::S3 => "s3" } }

struct St {
    schedule: Vec<Op>,
    turn: usize,
    armed: bool,
    k: u64,
    poll_count: u64,
    in_race_poll: bool,
    poll_blocked: bool,
    sig_blocked: bool,
    poll_done: Option<&'static str>,
    sig_done: bool,
    realised: Vec<&'static str>,
    timed_out: bool,
    forced: bool,
    race_next: bool,
    race_started: bool,
    moved: u64,
}
static ST: Mutex<Option<St>> = Mutex::new(None);
static CV: Condvar = Condvar::new();
static SEQ: AtomicU64 = AtomicU64::new(0);
static LOG: Mutex<Vec<(u64, String)>> = Mutex::new(Vec::new());
static WAKES: AtomicU64 = AtomicU64::new(0);
static POLLS: AtomicU64 = AtomicU64::new(0);
static WAKES_AT_RACE_POLL_START: AtomicU64 = AtomicU64::new(u64::MAX);
static HOWL_RETURNED: AtomicBool = AtomicBool::new(false);
/// sessions scenarios with a late connection: the accept-loop task is held at the start of its next poll (point p12-) until the late
/// connection sits in the listener's backlog, so that "a connection is ready at the very poll that should notice the interrupt" is a
/// forced schedule, not luck
static HOLD_P12: AtomicBool = AtomicBool::new(false);
/// final wait (`wg.await` after the accept loop): the first poll that found sessions in flight is held between reading the counter and
/// whatever it does to be polled again, until the harness has let the last session finish - the window in which a wake-up can be lost
static HOLD_WG: AtomicBool = AtomicBool::new(false);
/// "queued session" scenario: on a current-thread runtime a session spawned by the accept loop is not polled before the accept-loop task
/// yields. When armed, the hook at p12- notices its second arrival within ONE poll of the accept-loop task (the first arrival's accept was
/// ready: a connection was accepted and its session spawned in this very poll) and delivers the interrupt right there, waiting until the
/// signal handler has finished: the loop then sees the flag while that session has not run a single step yet. It is in flight all the same.
static QUEUED_ARMED: AtomicBool = AtomicBool::new(false);
static QUEUED_FIRED: AtomicBool = AtomicBool::new(false);
static QUEUED_LAST: Mutex<(u64, u64)> = Mutex::new((0, 0));
static WG_POLLS: AtomicU64 = AtomicU64::new(0);
static WG_PENDINGS: AtomicU64 = AtomicU64::new(0);
static WS_GATE: AtomicBool = AtomicBool::new(false);
static OUT_PATH: std::sync::OnceLock<String> = std::sync::OnceLock::new();

/// Sends the process a real SIGINT - after looking at what the process would do with it. ohkami promises to notice the interrupt: by the
/// time the server accepts connections its handler has to be installed, whatever the disposition was before (`./server &` from a
/// non-interactive shell inherits SIG_IGN). With the default or the ignoring disposition in place the interrupt is lost by construction:
/// that is reported as such (and the signal, which would kill or bypass the child, is not sent).
fn raise_sigint(mode: &str) {
    let mut old: libc::sigaction = unsafe { std::mem::zeroed() };
    unsafe { libc::sigaction(libc::SIGINT, std::ptr::null(), &mut old) };
    if old.sa_sigaction == libc::SIG_DFL || old.sa_sigaction == libc::SIG_IGN {
        log("no_interrupt_handler_installed");
        let logv: Vec<Value> = LOG.lock().unwrap().iter().map(|(s, e)| json!([s, e])).collect();
        let doc = json!({"verdict": {"mode": mode, "interrupt_handler_installed": false, "disposition": if old.sa_sigaction == libc::SIG_DFL { "default" } else { "ignored" }}, "log": logv});
        if let Some(out) = OUT_PATH.get() {
            let _ = std::fs::write(out, serde_json::to_vec(&doc).unwrap());
        }
        unsafe { libc::_exit(0) }
    }
    unsafe { libc::kill(libc::getpid(), libc::SIGINT) };
}

fn log(e: impl Into<String>) -> u64 {
    let s = SEQ.fetch_add(1, Ordering::SeqCst);
    let e = e.into();
    let mut l = LOG.lock().unwrap();
    // the wait-group future polls and wakes itself while sessions are in flight: keep the log bounded
    if l.len() < 4000 || !(e == "wake" || e == "task-poll") {
        l.push((s, e));
    }
    s
}

fn wait_turn(op: Op) {
    let mut g = ST.lock().unwrap();
    let deadline = Instant::now() + Duration::from_secs(10);
    loop {
        let st = g.as_mut().unwrap();
        if st.timed_out || st.turn >= st.schedule.len() || st.schedule[st.turn] == op {
            return;
        }
        let (ng, to) = CV.wait_timeout(g, Duration::from_millis(200)).unwrap();
        g = ng;
        if to.timed_out() && Instant::now() > deadline {
            g.as_mut().unwrap().timed_out = true;
            CV.notify_all();
            return;
        }
    }
}
fn finish(op: Op) {
    let mut g = ST.lock().unwrap();
    let st = g.as_mut().unwrap();
    if st.turn < st.schedule.len() && st.schedule[st.turn] == op {
        st.turn += 1;
    }
    st.realised.push(op_name(op));
    CV.notify_all();
}
fn wait_armed() {
    let mut g = ST.lock().unwrap();
    let deadline = Instant::now() + Duration::from_secs(10);
    while !g.as_ref().unwrap().armed && !g.as_ref().unwrap().timed_out {
        let (ng, _) = CV.wait_timeout(g, Duration::from_millis(200)).unwrap();
        g = ng;
        if Instant::now() > deadline {
            g.as_mut().unwrap().timed_out = true;
            CV.notify_all();
        }
    }
}

fn sched_callback(point: &'static str) {
    // the final wait polls itself in a loop: only the first arrival at each of its points is logged
    if point == "wg.poll-" {
        if WG_POLLS.fetch_add(1, Ordering::SeqCst) == 0 { log("pt:wg.poll-"); }
        return;
    }
    if point == "wg.pending-" {
        if WG_PENDINGS.fetch_add(1, Ordering::SeqCst) == 0 {
            log("pt:wg.pending-");
            if HOLD_WG.load(Ordering::SeqCst) {
                log("held_at:wg.pending-");
                let t = Instant::now();
                while HOLD_WG.load(Ordering::SeqCst) && t.elapsed() < Duration::from_secs(90) {
                    std::thread::sleep(Duration::from_millis(1));
                }
                log("released_at:wg.pending-");
            }
        }
        return;
    }
    log(format!("pt:{point}"));
    let forced = ST.lock().unwrap().as_ref().map(|s| s.forced).unwrap_or(false);
    if !forced {
        if point == "p12-" && QUEUED_ARMED.load(Ordering::SeqCst) && !QUEUED_FIRED.load(Ordering::SeqCst) {
            let tp = POLLS.load(Ordering::SeqCst);
            let n = { let mut g = QUEUED_LAST.lock().unwrap(); if g.0 == tp { g.1 += 1 } else { *g = (tp, 1) } g.1 };
            if n >= 2 {
                QUEUED_FIRED.store(true, Ordering::SeqCst);
                log("queued:accepted-and-spawned-in-this-poll");
                log("SIGINT");
                raise_sigint("queued");
                let t = Instant::now();
                while !LOG.lock().unwrap().iter().any(|(_, e)| e == "pt:s.end") && t.elapsed() < Duration::from_secs(30) {
                    std::thread::sleep(Duration::from_millis(1));
                }
                log("queued:poll-goes-on");
            }
        }
        if point == "p12-" && HOLD_P12.load(Ordering::SeqCst) {
            log("held_at:p12-");
            let t = Instant::now();
            while HOLD_P12.load(Ordering::SeqCst) && t.elapsed() < Duration::from_secs(90) {
                std::thread::sleep(Duration::from_millis(1));
            }
            log("released_at:p12-");
        }
        return;
    }
    match point {
        "p12-" => {
            // 0 = free-running poll, 1 = this arrival becomes the race poll, 2 = the race poll moved here (its accept was ready)
            let role = {
                let mut g = ST.lock().unwrap();
                let st = g.as_mut().unwrap();
                st.poll_count += 1;
                if st.in_race_poll {
                    // the accept future of the previous arrival was ready (a connection was accepted, the flag was not read):
                    // the race continues with the first poll of the next until_interrupt future
                    st.moved += 1;
                    2
                } else if st.race_next && !st.race_started {
                    st.race_started = true;
                    st.in_race_poll = true;
                    st.poll_blocked = true;
                    CV.notify_all();
                    1
                } else {
                    0
                }
            };
            if role == 1 {
                wait_armed();
            }
            if role != 0 {
                WAKES_AT_RACE_POLL_START.store(WAKES.load(Ordering::SeqCst), Ordering::SeqCst);
                wait_turn(Op::P12);
            }
        }
        "p3-" => {
            if ST.lock().unwrap().as_ref().unwrap().in_race_poll {
                finish(Op::P12);
                wait_turn(Op::P3);
            }
        }
        "p.pending" => {
            if ST.lock().unwrap().as_ref().unwrap().in_race_poll {
                finish(Op::P3);
                let mut g = ST.lock().unwrap();
                let st = g.as_mut().unwrap();
                st.in_race_poll = false;
                st.poll_done = Some("pending");
                CV.notify_all();
            }
        }
        "p.recheck-ready" => {
            // the flag was found set by the re-check after publishing the waker
            if ST.lock().unwrap().as_ref().unwrap().in_race_poll {
                finish(Op::P3);
                let mut g = ST.lock().unwrap();
                let st = g.as_mut().unwrap();
                st.in_race_poll = false;
                st.poll_done = Some("ready-after-recheck");
                CV.notify_all();
            }
        }
        "p.ready" => {
            if ST.lock().unwrap().as_ref().unwrap().in_race_poll {
                finish(Op::P12);
                let mut g = ST.lock().unwrap();
                let st = g.as_mut().unwrap();
                // the code skips publishing once the flag was seen: skip it in the schedule, too
                let t = st.turn;
                if let Some(i) = st.schedule[t..].iter().position(|o| *o == Op::P3) {
                    st.schedule.remove(t + i);
                }
                st.in_race_poll = false;
                st.poll_done = Some("ready");
                CV.notify_all();
            }
        }
        "s1-" => {
            {
                let mut g = ST.lock().unwrap();
                g.as_mut().unwrap().sig_blocked = true;
                CV.notify_all();
            }
            wait_armed();
            wait_turn(Op::S1);
        }
        "s2-" => { finish(Op::S1); wait_turn(Op::S2) }
        "s3-" => { finish(Op::S2); wait_turn(Op::S3) }
        "s.end" => {
            finish(Op::S3);
            let mut g = ST.lock().unwrap();
            g.as_mut().unwrap().sig_done = true;
            CV.notify_all();
        }
        _ => {}
    }
}

/// Waker wrapper of the accept-loop task. It counts wakes, and it is as strict as the `Future` contract allows an executor to be: only the
/// waker handed to the MOST RECENT poll reaches the task ("only the Waker from the Context passed to the most recent call should be
/// scheduled to receive a wakeup"); a waker kept from an earlier poll is dead, as it is after a future moved to another task. Code that
/// publishes its waker once and never refreshes it loses the interrupt here, as it would after `select!` + `spawn_local`.
static WAKER_GEN: AtomicU64 = AtomicU64::new(0);
static STALE_WAKES: AtomicU64 = AtomicU64::new(0);
struct CountingWaker(Waker, u64);
impl CountingWaker {
    fn fire(&self) {
        if self.1 != WAKER_GEN.load(Ordering::SeqCst) {
            STALE_WAKES.fetch_add(1, Ordering::SeqCst);
            log("stale-wake-ignored");
            return;
        }
        WAKES.fetch_add(1, Ordering::SeqCst);
        log("wake");
        self.0.wake_by_ref();
    }
}
impl Wake for CountingWaker {
    fn wake(self: Arc<Self>) { self.fire() }
    fn wake_by_ref(self: &Arc<Self>) { self.fire() }
}
struct Wrap<F>(Pin<Box<F>>);
impl<F: Future> Future for Wrap<F> {
    type Output = F::Output;
    fn poll(mut self: Pin<&mut Self>, cx: &mut Context<'_>) -> Poll<F::Output> {
        POLLS.fetch_add(1, Ordering::SeqCst);
        log("task-poll");
        let generation = WAKER_GEN.fetch_add(1, Ordering::SeqCst) + 1;
        let w = Waker::from(Arc::new(CountingWaker(cx.waker().clone(), generation)));
        let mut c = Context::from_waker(&w);
        self.0.as_mut().poll(&mut c)
    }
}

/// gates for slow handlers: handler i runs until gate i opens
static GATES: Mutex<Vec<bool>> = Mutex::new(Vec::new());

fn app() -> Ohkami {
    Ohkami::new((
        "/fast".GET(|| async { "fast" }),
        "/boom".GET(|| async {
            log("handler_panics");
            if true { panic!("boom (scripted handler panic)") }
            "unreachable"
        }),
        // an upgraded (WebSocket) connection is a session like any other: it is in flight until its handler is through
        "/ws".GET(ws_handler),
        "/slow/:i".GET(|i: usize| async move {
            log(format!("handler_start:{i}"));
            loop {
                if GATES.lock().unwrap().get(i).copied().unwrap_or(true) {
                    break;
                }
                tokio::time::sleep(Duration::from_millis(5)).await;
            }
            log(format!("handler_end:{i}"));
            "slow done"
        }),
    ))
}

async fn ws_handler(ctx: ohkami::ws::WebSocketContext<'_>) -> ohkami::ws::WebSocket {
    ctx.upgrade(|_conn| async move {
                log("ws_session_start");
                loop {
                    if WS_GATE.load(Ordering::SeqCst) {
                        break;
                    }
                    tokio::time::sleep(Duration::from_millis(5)).await;
                }
                log("ws_session_end");
    })
}

fn wait_for(mut cond: impl FnMut(&St) -> bool, secs: u64) -> bool {
    let mut g = ST.lock().unwrap();
    let deadline = Instant::now() + Duration::from_secs(secs);
    loop {
        if cond(g.as_ref().unwrap()) {
            return true;
        }
        if Instant::now() > deadline {
            return false;
        }
        let (ng, _) = CV.wait_timeout(g, Duration::from_millis(50)).unwrap();
        g = ng;
    }
}

/// `vh c18child --port P --schedule p12,p3,s1,s2,s3 --k 1`  |  `--sessions N --order 2,0,1 [--idle M] [--late 1]`
pub fn child(args: &Args) {
    let port: u16 = args.flag("port").unwrap().parse().unwrap();
    let schedule: Vec<Op> = args.flag("schedule").map(|s| s.split(',').map(|x| match x { "p12" => Op::P12, "p3" => Op::P3, "s1" => Op::S1, "s2" => Op::S2, _ => Op::S3 }).collect()).unwrap_or_default();
    let forced = !schedule.is_empty();
    let k: u64 = args.flag("k").map(|v| v.parse().unwrap()).unwrap_or(1);
    // patient re-run of a scenario whose return was not observed in time: the same scenario with long waits (the verdict must not hinge on machine load)
    let patient = args.flag("patient").is_some();
    let sessions: usize = args.flag("sessions").map(|v| v.parse().unwrap()).unwrap_or(0);
    let order: Vec<usize> = args.flag("order").map(|s| s.split(',').filter(|x| !x.is_empty()).map(|x| x.parse().unwrap()).collect()).unwrap_or_default();
    let idle: usize = args.flag("idle").map(|v| v.parse().unwrap()).unwrap_or(0);
    let late = args.flag("late").is_some();
    let boom = args.flag("boom").is_some();
    let churn: u64 = args.flag("churn").map(|v| v.parse().unwrap()).unwrap_or(0);
    let ws = args.flag("ws").is_some();
    let holdwg = args.flag("holdwg").is_some();
    let queued = args.flag("queued").is_some();
    let _ = OUT_PATH.set(args.out.clone());
    if args.flag("sigign").is_some() {
        // the process starts with SIGINT ignored, as a background job of a non-interactive shell does
        unsafe { libc::signal(libc::SIGINT, libc::SIG_IGN) };
    }
    *ST.lock().unwrap() = Some(St { schedule: schedule.clone(), turn: 0, armed: false, k, poll_count: 0, in_race_poll: false, poll_blocked: false, sig_blocked: false, poll_done: None, sig_done: false, realised: vec![], timed_out: false, forced, race_next: forced && k == 1, race_started: false, moved: 0 });
    *GATES.lock().unwrap() = vec![false; sessions];
    hook::set_sched(sched_callback);
    let out = args.out.clone();
    let monitor = std::thread::spawn(move || {
        let mut verdict = json!({});
        let connect = || TcpStream::connect(("127.0.0.1", port));
        if !forced {
            // wait for the listener
            let t0 = Instant::now();
            while connect().is_err() && t0.elapsed() < Duration::from_secs(5) {
                std::thread::sleep(Duration::from_millis(10));
            }
        }
        if forced {
            let mut keep: Vec<TcpStream> = vec![];
            if k >= 2 {
                // the first poll runs free and parks; k-2 connections are accepted and served; then one more connection is made
                // right before the race, so that the signal meets a loop that is busy accepting (the race poll moves to the next future)
                wait_for(|s| s.poll_count >= 1, 5);
                std::thread::sleep(Duration::from_millis(40));
                for _ in 0..(k - 2) {
                    if let Ok(mut c) = connect() {
                        let _ = c.write_all(b"GET /fast HTTP/1.1\r\nHost: t\r\n\r\n");
                        c.set_read_timeout(Some(Duration::from_secs(2))).ok();
                        let mut b = [0u8; 256];
                        let _ = c.read(&mut b);
                        keep.push(c);
                    }
                    std::thread::sleep(Duration::from_millis(40));
                }
                {
                    let mut g = ST.lock().unwrap();
                    g.as_mut().unwrap().race_next = true;
                }
                if let Ok(c) = connect() { keep.push(c) }
            }
            if !wait_for(|s| s.poll_blocked, 5) {
                verdict = json!({"inconclusive": "the accept loop never reached its k-th poll"});
            } else {
                log("SIGINT");
                raise_sigint("interleaving");
                if !wait_for(|s| s.sig_blocked, 5) {
                    verdict = json!({"inconclusive": "the signal handler never started"});
                } else {
                    {
                        let mut g = ST.lock().unwrap();
                        g.as_mut().unwrap().armed = true;
                        CV.notify_all();
                    }
                    let done = wait_for(|s| (s.sig_done && s.poll_done.is_some()) || s.timed_out, 15);
                    let (poll_done, realised, timed_out) = { let g = ST.lock().unwrap(); let s = g.as_ref().unwrap(); (s.poll_done, s.realised.clone(), s.timed_out) };
                    if !done || timed_out {
                        verdict = json!({"inconclusive": "a scheduled turn was not taken within 10 s", "realised": realised});
                    } else {
                        // progress, in logical steps: the handler has finished; either the poll saw the flag, or a wake is outstanding
                        let wakes_since = WAKES.load(Ordering::SeqCst).saturating_sub(WAKES_AT_RACE_POLL_START.load(Ordering::SeqCst));
                        let lost = poll_done == Some("pending") && wakes_since == 0;
                        // connections made to provoke later polls are closed now, so that their sessions end
                        drop(std::mem::take(&mut keep));
                        // confirm by observation: returns within 8 s, or (if lost) stays parked
                        let t = Instant::now();
                        while !HOWL_RETURNED.load(Ordering::SeqCst) && t.elapsed() < Duration::from_millis(if lost { 400 } else if patient { 100_000 } else { 8000 }) {
                            std::thread::sleep(Duration::from_millis(5));
                        }
                        let moved = ST.lock().unwrap().as_ref().unwrap().moved;
                        verdict = json!({"mode": "interleaving", "poll_result": poll_done, "realised": realised, "race_poll_moved_past_accepts": moved, "wakes_since_race_poll_began": wakes_since, "lost_wakeup": lost,
                            "howl_returned": HOWL_RETURNED.load(Ordering::SeqCst), "task_polls": POLLS.load(Ordering::SeqCst), "wakes": WAKES.load(Ordering::SeqCst)});
                    }
                }
            }
        } else if queued {
            // one client; its connection is accepted and its session spawned in the poll in which the interrupt is noticed (see QUEUED_ARMED)
            std::thread::sleep(Duration::from_millis(150)); // let the session of the listener probe end
            if let Some(g) = GATES.lock().unwrap().get_mut(0) { *g = true }
            QUEUED_ARMED.store(true, Ordering::SeqCst);
            let mut c = connect().ok();
            if let Some(c) = c.as_mut() { let _ = c.write_all(b"GET /slow/0 HTTP/1.1\r\nHost: t\r\nConnection: close\r\n\r\n"); }
            let t = Instant::now();
            while !LOG.lock().unwrap().iter().any(|(_, e)| e == "queued:poll-goes-on") && t.elapsed() < Duration::from_secs(if patient { 60 } else { 15 }) {
                std::thread::sleep(Duration::from_millis(2));
            }
            let fired = LOG.lock().unwrap().iter().any(|(_, e)| e == "queued:poll-goes-on");
            let handler_ran = LOG.lock().unwrap().iter().any(|(_, e)| e == "pt:s.end");
            let mut got = false;
            if let Some(c) = c.as_mut() {
                c.set_read_timeout(Some(Duration::from_secs(if patient { 30 } else { 5 }))).ok();
                let mut b = [0u8; 512];
                let n = c.read(&mut b).unwrap_or(0);
                got = n > 0 && b[..n].windows(9).any(|w| w == b"slow done");
                log(format!("client_got_response:0:{got}"));
            }
            drop(c);
            let t = Instant::now();
            while !HOWL_RETURNED.load(Ordering::SeqCst) && t.elapsed() < Duration::from_secs(if patient { 100 } else { 10 }) {
                std::thread::sleep(Duration::from_millis(5));
            }
            verdict = if !fired { json!({"inconclusive": "queued scenario: no poll of the accept loop accepted a connection and went round"}) }
                else if !handler_ran { json!({"inconclusive": "the signal handler never ran (queued scenario)"}) }
                else { json!({"mode": "queued", "client_got_response": got, "howl_returned": HOWL_RETURNED.load(Ordering::SeqCst), "task_polls": POLLS.load(Ordering::SeqCst)}) };
        } else {
            // in-flight sessions: slow requests held by gates, idle keep-alive connections, then SIGINT, then the gates open in order
            if boom {
                // a session whose handler panics while being awaited has ended, too: it must not be waited for
                if let Ok(mut c) = connect() {
                    let _ = c.write_all(b"GET /boom HTTP/1.1\r\nHost: t\r\n\r\n");
                    c.set_read_timeout(Some(Duration::from_millis(500))).ok();
                    let mut b = [0u8; 64];
                    let _ = c.read(&mut b);
                }
            }
            let mut conns: Vec<TcpStream> = vec![];
            for i in 0..sessions {
                if let Ok(mut c) = connect() {
                    let _ = c.write_all(format!("GET /slow/{i} HTTP/1.1\r\nHost: t\r\n\r\n").as_bytes());
                    conns.push(c);
                }
            }
            let mut idles: Vec<TcpStream> = vec![];
            for _ in 0..idle {
                if let Ok(mut c) = connect() {
                    let _ = c.write_all(b"GET /fast HTTP/1.1\r\nHost: t\r\n\r\n");
                    let mut b = [0u8; 512];
                    c.set_read_timeout(Some(Duration::from_secs(2))).ok();
                    let _ = c.read(&mut b);
                    idles.push(c);
                }
            }
            // one upgraded connection in flight at the time of the interrupt
            let mut ws_conn: Option<TcpStream> = None;
            if ws {
                if let Ok(mut c) = connect() {
                    let _ = c.write_all(b"GET /ws HTTP/1.1\r\nHost: t\r\nConnection: Upgrade\r\nUpgrade: websocket\r\nSec-WebSocket-Version: 13\r\nSec-WebSocket-Key: dGhlIHNhbXBsZSBub25jZQ==\r\n\r\n");
                    c.set_read_timeout(Some(Duration::from_secs(5))).ok();
                    let mut b = [0u8; 512];
                    let n = c.read(&mut b).unwrap_or(0);
                    log(format!("ws_handshake:{}", b[..n].starts_with(b"HTTP/1.1 101")));
                    ws_conn = Some(c);
                }
                let t = Instant::now();
                while !LOG.lock().unwrap().iter().any(|(_, e)| e == "ws_session_start") && t.elapsed() < Duration::from_secs(5) {
                    std::thread::sleep(Duration::from_millis(5));
                }
            }
            // connection churn before the interrupt: many short sessions from several clients end on the runtime's worker threads while the
            // accept loop keeps registering new ones (the wait group that `howl` waits on is shared between them)
            if churn > 0 {
                let hs: Vec<_> = (0..8).map(|_| std::thread::spawn(move || {
                    let mut done = 0u64;
                    for _ in 0..churn {
                        if let Ok(mut c) = TcpStream::connect(("127.0.0.1", port)) {
                            let _ = c.write_all(b"GET /fast HTTP/1.1\r\nHost: t\r\nConnection: close\r\n\r\n");
                            c.set_read_timeout(Some(Duration::from_secs(5))).ok();
                            let mut b = [0u8; 512];
                            while let Ok(n) = c.read(&mut b) { if n == 0 { break } }
                            done += 1;
                        }
                    }
                    done
                })).collect();
                let total: u64 = hs.into_iter().map(|h| h.join().unwrap_or(0)).sum();
                log(format!("churn_done:{total}"));
            }
            // all slow handlers started?
            let t = Instant::now();
            while LOG.lock().unwrap().iter().filter(|(_, e)| e.starts_with("handler_start:")).count() < sessions && t.elapsed() < Duration::from_secs(5) {
                std::thread::sleep(Duration::from_millis(5));
            }
            if late {
                HOLD_P12.store(true, Ordering::SeqCst);
            }
            if holdwg && sessions + idle > 0 { HOLD_WG.store(true, Ordering::SeqCst) }
            log("SIGINT");
            raise_sigint("sessions");
            // the loop must stop accepting: after the handler ran, new connections are refused or never served. "After the handler ran" is
            // read from the log (scheduling point s.end), not assumed after a pause: delivery of the signal to the ctrlc thread is the
            // kernel's business (and ThreadSanitizer defers asynchronous signals to a thread's next intercepted call, possibly for ever)
            let t = Instant::now();
            let mut handler_ran = false;
            while t.elapsed() < Duration::from_secs(if patient { 60 } else { 20 }) {
                if LOG.lock().unwrap().iter().any(|(_, e)| e == "pt:s.end") {
                    handler_ran = true;
                    break;
                }
                std::thread::sleep(Duration::from_millis(5));
            }
            let mut late_served = false;
            if !handler_ran {
                log("signal_handler_never_ran");
                HOLD_P12.store(false, Ordering::SeqCst);
            }
            if late && handler_ran {
                // the handler has finished (flag set, task woken); the woken poll is held at p12-. Two connections arrive now: they are
                // in the backlog when the poll goes on, i.e. accept is ready at the poll that has to notice the interrupt.
                let mut late_conns = vec![];
                for _ in 0..2 {
                    match connect() {
                        Ok(mut c) => {
                            log("late_connect_ok");
                            let _ = c.write_all(b"GET /fast HTTP/1.1\r\nHost: t\r\n\r\n");
                            late_conns.push(c);
                        }
                        Err(_) => { log("late_connect_refused"); }
                    }
                }
                HOLD_P12.store(false, Ordering::SeqCst);
                for c in late_conns.iter_mut() {
                    c.set_read_timeout(Some(Duration::from_millis(1000))).ok();
                    let mut b = [0u8; 64];
                    if let Ok(n) = c.read(&mut b) { if n > 0 { late_served = true; log("late_served"); } }
                }
            }
            // "stops accepting": once the final wait has begun (its first poll is in the log) the accept loop is over and the listener
            // is gone, by program order - while sessions are still in flight a new connection must be refused, not parked in a backlog
            // nobody will ever serve. Decided at that logical point; if the point is not reached in time nothing is concluded here.
            let mut listening_during_final_wait = Value::Null;
            if handler_ran && sessions + idle > 0 && !ws {
                let t = Instant::now();
                while !LOG.lock().unwrap().iter().any(|(_, e)| e == "pt:wg.poll-") && t.elapsed() < Duration::from_secs(if patient { 60 } else { 10 }) {
                    std::thread::sleep(Duration::from_millis(2));
                }
                if LOG.lock().unwrap().iter().any(|(_, e)| e == "pt:wg.poll-") && !HOWL_RETURNED.load(Ordering::SeqCst) {
                    match connect() {
                        Ok(c) => { log("connect_during_final_wait:ok"); listening_during_final_wait = json!(true); drop(c) }
                        Err(e) => { log(format!("connect_during_final_wait:{:?}", e.kind())); listening_during_final_wait = json!(false) }
                    }
                }
            }
            let returned_early = HOWL_RETURNED.load(Ordering::SeqCst) && sessions > 0;
            for i in &order {
                std::thread::sleep(Duration::from_millis(15));
                log(format!("gate_open:{i}"));
                GATES.lock().unwrap()[*i] = true;
            }
            // read the responses of the slow requests, then close everything
            for (i, c) in conns.iter_mut().enumerate() {
                c.set_read_timeout(Some(Duration::from_secs(5))).ok();
                let mut b = [0u8; 512];
                let n = c.read(&mut b).unwrap_or(0);
                log(format!("client_got_response:{i}:{}", n > 0 && b[..n].windows(9).any(|w| w == b"slow done")));
            }
            drop(conns);
            if ws {
                // every other session is over before the upgraded one is allowed to finish: a `howl` that does not count the upgraded
                // session returns now (seen in the log as howl_returned before ws_session_end), whatever the machine load. The pause only
                // gives such a return time to happen; a correct `howl` is still waiting after it.
                for c in std::mem::take(&mut idles) { drop(c); log("idle_closed"); }
                let t = Instant::now();
                while !HOWL_RETURNED.load(Ordering::SeqCst) && t.elapsed() < Duration::from_millis(400) {
                    std::thread::sleep(Duration::from_millis(5));
                }
                log("ws_gate_open");
                WS_GATE.store(true, Ordering::SeqCst);
                // the upgraded session ends when its handler is through; the client waits for that before it hangs up
                let t = Instant::now();
                while !LOG.lock().unwrap().iter().any(|(_, e)| e == "ws_session_end") && t.elapsed() < Duration::from_secs(5) {
                    std::thread::sleep(Duration::from_millis(5));
                }
            }
            drop(ws_conn);
            for c in idles { drop(c); log("idle_closed"); }
            if HOLD_WG.load(Ordering::SeqCst) {
                // every client is through and has hung up; give the sessions a moment to end on their worker threads while the final wait
                // is still held inside its window, then let it go on: it must notice that nothing is in flight any more
                let held = LOG.lock().unwrap().iter().any(|(_, e)| e == "held_at:wg.pending-");
                std::thread::sleep(Duration::from_millis(if held { 300 } else { 0 }));
                log("release:wg.pending-");
                HOLD_WG.store(false, Ordering::SeqCst);
            }
            let t = Instant::now();
            while !HOWL_RETURNED.load(Ordering::SeqCst) && t.elapsed() < Duration::from_secs(if patient { 100 } else { 10 }) {
                std::thread::sleep(Duration::from_millis(5));
            }
            verdict = if !handler_ran { json!({"inconclusive": "the signal handler never ran (sessions scenario)"}) } else { json!({"mode": "sessions", "sessions": sessions, "idle": idle, "order": order, "late_served": late_served, "returned_before_gates": returned_early, "listening_during_final_wait": listening_during_final_wait,
                "howl_returned": HOWL_RETURNED.load(Ordering::SeqCst), "task_polls": POLLS.load(Ordering::SeqCst), "wakes": WAKES.load(Ordering::SeqCst)}) };
        }
        let logv: Vec<Value> = LOG.lock().unwrap().iter().map(|(s, e)| json!([s, e])).collect();
        let doc = json!({"verdict": verdict, "log": logv});
        let _ = std::fs::write(&out, serde_json::to_vec(&doc).unwrap());
        unsafe { libc::_exit(0) }
    });
    let rt = if queued { tokio::runtime::Builder::new_current_thread().enable_all().build().unwrap() }
        else { tokio::runtime::Builder::new_multi_thread().worker_threads(if churn > 0 { 8 } else { 3 }).enable_all().build().unwrap() };
    rt.block_on(Wrap(Box::pin(app().howl(("127.0.0.1", port)))));
    log("howl_returned");
    HOWL_RETURNED.store(true, Ordering::SeqCst);
    let _ = monitor.join();
}

/* =============================== parent side =============================== */

fn interleavings() -> Vec<Vec<&'static str>> {
    // all merges of [p12, p3] with [s1, s2, s3]
    let mut out = vec![];
    for mask in 0u32..32 {
        if mask.count_ones() != 2 { continue }
        let (mut p, mut s) = (["p12", "p3"].iter(), ["s1", "s2", "s3"].iter());
        let v: Vec<&'static str> = (0..5).map(|i| if mask & (1 << i) != 0 { *p.next().unwrap() } else { *s.next().unwrap() }).collect();
        out.push(v);
    }
    out
}

fn run_child(extra: &[(&str, String)], scratch: &std::path::Path, tag: &str, patient: bool) -> Result<Value, String> {
    let port = crate::engines::tcp::free_port();
    let outp = scratch.join(format!("c18-{tag}-{port}.json"));
    let mut cmd = std::process::Command::new(std::env::current_exe().map_err(|e| e.to_string())?);
    cmd.arg("c18child").arg("--port").arg(port.to_string()).arg("--out").arg(&outp);
    for (k, v) in extra {
        cmd.arg(format!("--{k}")).arg(v);
    }
    if patient {
        cmd.arg("--patient").arg("1");
    }
    cmd.env("OHKAMI_KEEPALIVE_TIMEOUT", "8").stdout(std::process::Stdio::null()).stderr(crate::engines::tcp::child_stderr(&format!("c18-{tag}-{port}")));
    let mut child = cmd.spawn().map_err(|e| e.to_string())?;
    let t = Instant::now();
    loop {
        match child.try_wait() {
            Ok(Some(_)) => break,
            Ok(None) if t.elapsed() > Duration::from_secs(if patient { 160 } else { 40 }) => {
                let _ = child.kill();
                let _ = child.wait();
                return Err("watchdog: child exceeded its wall-clock limit".into());
            }
            _ => std::thread::sleep(Duration::from_millis(10)),
        }
    }
    let bytes = std::fs::read(&outp).map_err(|e| format!("child left no log: {e}"))?;
    let _ = std::fs::remove_file(&outp);
    serde_json::from_slice(&bytes).map_err(|e| e.to_string())
}

pub fn run(args: &Args, rep: &mut Report) {
    let scratch = std::env::var("VH_SCRATCH").map(std::path::PathBuf::from).unwrap_or_else(|_| std::env::temp_dir());
    let _ = std::fs::create_dir_all(&scratch);
    let repeats: u64 = args.flag("repeats").map(|v| v.parse().unwrap()).unwrap_or(1);
    // the work list: 10 interleavings x k in 1..=3, then session scenarios; sharded by index
    let mut work: Vec<(String, Vec<(&'static str, String)>)> = vec![];
    for r in 0..repeats {
        for il in interleavings() {
            for k in 1..=3u64 {
                work.push((format!("il:{}:k{k}:r{r}", il.join(",")), vec![("schedule", il.join(",")), ("k", k.to_string())]));
            }
        }
    }
    let mut rng = crate::rng::Rng::derive(args.seed, 18, 0);
    for s in 0..args.budget {
        let n = rng.range(0, 6);
        let mut order: Vec<usize> = (0..n).collect();
        rng.shuffle(&mut order);
        let idle = rng.below(3);
        let mut ex: Vec<(&'static str, String)> = vec![("sessions", n.to_string()), ("order", order.iter().map(|x| x.to_string()).collect::<Vec<_>>().join(",")), ("idle", idle.to_string())];
        // scenario 0 is the witness of C18-X2 (connections ready at the poll that has to notice the interrupt)
        if rng.bool() || s == 0 { ex.push(("late", "1".into())) }
        if rng.chance(1, 3) { ex.push(("boom", "1".into())) }
        // scenario 4 always, others sometimes: an upgraded (WebSocket) connection in flight
        if s == 4 || rng.chance(1, 5) { ex.push(("ws", "1".into())) }
        // scenarios 2 and 3 always, others sometimes: connection churn from 8 clients before the interrupt
        // (3 000 exchanges per client = 24 000 sessions in about half a second: measured, a lost update of the shared session counter under this
        // churn shows in 4 of 4 runs, under 400 exchanges in 1 of 4)
        if s == 2 || s == 3 || rng.chance(1, 6) { ex.push(("churn", if s == 2 || s == 3 { "3000".into() } else { "1000".to_string() })) }
        // scenario 1 always, others sometimes: the process inherited SIG_IGN for SIGINT
        if s == 1 || rng.chance(1, 4) { ex.push(("sigign", "1".into())) }
        // scenario 5 always, others sometimes: the final wait is held in its window while the last sessions finish
        if (s == 5 || rng.chance(1, 3)) && n + idle > 0 { ex.push(("holdwg", "1".into())) }
        let hw = ex.iter().any(|(k, _)| *k == "holdwg");
        let b = ex.iter().any(|(k, _)| *k == "boom");
        let ign = ex.iter().any(|(k, _)| *k == "sigign");
        let ch = ex.iter().any(|(k, _)| *k == "churn");
        let wsf = ex.iter().any(|(k, _)| *k == "ws");
        work.push((format!("sess:{s}:n{n}:idle{idle}{}{}{}{}", if ign { ":sigign" } else { "" }, if ch { ":churn" } else { "" }, if wsf { ":ws" } else { "" }, if b { ":boom" } else { "" }) + if hw { ":holdwg" } else { "" }, ex));
    }
    // a session that was accepted but has not run a step when the interrupt is noticed (current-thread runtime, forced through the hook)
    for r in 0..(2 * repeats) {
        work.push((format!("queued:r{r}"), vec![("queued", "1".into()), ("sessions", "1".into())]));
    }
    for (i, (name, extra)) in work.iter().enumerate() {
        if (i as u64) % args.nshards != args.shard || (i as u64) < args.start {
            continue;
        }
        rep.begin(i as u64);
        rep.eval();
        let mut doc = match run_child(extra, &scratch, &format!("{}-{i}", args.shard), false) {
            Ok(d) => d,
            Err(e) => {
                rep.count("inconclusive_children");
                rep.count(&format!("inconclusive:{}", e.split(':').next().unwrap_or("?")));
                rep.end(i as u64);
                continue;
            }
        };
        // "did not return" observed against a wall clock is not a verdict yet (the machine may be loaded): the scenario is re-run alone
        // with 100 s of patience; a lost wake-up is decided logically and needs no re-run
        let v = &doc["verdict"];
        if v.get("inconclusive").is_none() && v["howl_returned"].as_bool() == Some(false) && v["lost_wakeup"].as_bool() != Some(true) {
            rep.count("no_return_in_time:patient_reruns");
            match run_child(extra, &scratch, &format!("{}-{i}p", args.shard), true) {
                Ok(d) => {
                    if d["verdict"]["howl_returned"].as_bool() == Some(true) {
                        rep.count("no_return_in_time:returned_on_patient_rerun");
                    }
                    doc = d;
                }
                Err(e) => {
                    rep.count("inconclusive_children");
                    rep.count(&format!("inconclusive:{}", e.split(':').next().unwrap_or("?")));
                    rep.end(i as u64);
                    continue;
                }
            }
        }
        judge(rep, i as u64, name, &doc);
        rep.end(i as u64);
    }
}

fn seq_of(log: &[(u64, String)], pred: impl Fn(&str) -> bool) -> Vec<u64> {
    log.iter().filter(|(_, e)| pred(e)).map(|(s, _)| *s).collect()
}

fn judge(rep: &mut Report, idx: u64, name: &str, doc: &Value) {
    let v = &doc["verdict"];
    let log: Vec<(u64, String)> = doc["log"].as_array().map(|a| a.iter().map(|x| (x[0].as_u64().unwrap_or(0), x[1].as_str().unwrap_or("").to_string())).collect()).unwrap_or_default();
    if let Some(why) = v.get("inconclusive") {
        rep.count("inconclusive_children");
        rep.count(&format!("inconclusive:{}", why.as_str().unwrap_or("?").split(' ').take(4).collect::<Vec<_>>().join("-")));
        return;
    }
    if v["interrupt_handler_installed"].as_bool() == Some(false) {
        rep.violation("C18/interrupt-handler-not-installed", &format!("the server is up but SIGINT still has its {} disposition: ohkami did not install its handler, an interrupt would be lost", v["disposition"].as_str().unwrap_or("?")),
            json!({"case_index": idx, "scenario": name, "verdict": v}));
        return;
    }
    if name.contains(":sigign") {
        rep.count("scenarios_started_with_sigint_ignored");
    }
    if name.contains(":churn") {
        rep.count("scenarios_with_connection_churn");
        if let Some(n) = log.iter().find_map(|(_, e)| e.strip_prefix("churn_done:").and_then(|x| x.parse::<u64>().ok())) {
            rep.count_n("churn_sessions_completed_before_the_interrupt", n);
        }
    }
    let cj = || json!({"case_index": idx, "scenario": name, "verdict": v, "log_tail": log.iter().rev().take(60).rev().map(|(s, e)| format!("{s}:{e}")).collect::<Vec<_>>()});
    match v["mode"].as_str() {
        Some("interleaving") => {
            let realised: Vec<String> = v["realised"].as_array().map(|a| a.iter().map(|x| x.as_str().unwrap_or("").to_string()).collect()).unwrap_or_default();
            rep.count("interleaving_runs");
            rep.distinct(&format!("order:{}", realised.join(",")));
            rep.count(&format!("poll_result:{}", v["poll_result"].as_str().unwrap_or("?")));
            let lost = v["lost_wakeup"].as_bool().unwrap_or(false);
            let returned = v["howl_returned"].as_bool().unwrap_or(false);
            if lost {
                rep.violation("C18/lost-wakeup", &format!("realised order [{}]: flag set, handler finished, task parked and no wake since its poll began; howl returned: {returned}", realised.join(" ")), cj());
            } else if !returned {
                rep.violation("C18/no-return-after-interrupt", &format!("realised order [{}]: a wake was delivered (or the flag was seen) but howl did not return within 8 s, nor within 100 s when the scenario was re-run alone", realised.join(" ")), cj());
            } else {
                rep.count("interleavings_returned");
                if rep.want_sample() {
                    rep.sample(json!({"scenario": name, "realised_order": realised, "poll_result": v["poll_result"], "task_polls": v["task_polls"], "wakes": v["wakes"]}));
                }
            }
        }
        Some("sessions") => {
            rep.count("session_scenarios");
            if log.iter().any(|(_, e)| e == "held_at:p12-") && log.iter().any(|(_, e)| e == "late_connect_ok") {
                rep.count("late_arrival_forced_at_the_interrupted_poll");
            }
            if name.contains(":boom") { rep.count("scenarios_with_panicking_handler") }
            if log.iter().any(|(_, e)| e == "held_at:wg.pending-") { rep.count("final_wait_held_in_its_window_while_the_last_sessions_finished") }
            match v["listening_during_final_wait"].as_bool() {
                Some(false) => rep.count("connection_refused_during_the_final_wait"),
                Some(true) => {
                    rep.violation("C18/listening-during-final-wait", "the final wait had begun (accept loop over, sessions still in flight) and a new connection was still accepted by the listening socket: the server did not stop accepting", cj());
                    return;
                }
                None => rep.count("final_wait_probe_not_made"),
            }
            let n = v["sessions"].as_u64().unwrap_or(0);
            rep.count_n("in_flight_sessions", n);
            let returned = seq_of(&log, |e| e == "howl_returned");
            let ends = seq_of(&log, |e| e.starts_with("handler_end:"));
            let gates: Vec<String> = log.iter().filter(|(_, e)| e.starts_with("handler_end:")).map(|(_, e)| e.clone()).collect();
            rep.distinct(&format!("completion:{}:{}", n, gates.join(",")));
            if v["late_served"].as_bool() == Some(true) {
                rep.violation("C18/served-after-interrupt", "a connection made after the interrupt handler ran was accepted and served", cj());
            }
            if !v["howl_returned"].as_bool().unwrap_or(false) {
                rep.violation("C18/no-return-after-sessions", &format!("{n} sessions finished but howl did not return within 10 s, nor within 100 s when the scenario was re-run alone"), cj());
                return;
            }
            let r = returned.first().copied().unwrap_or(u64::MAX);
            if name.contains(":ws") {
                let started = log.iter().any(|(_, e)| e == "ws_session_start");
                let ended = seq_of(&log, |e| e == "ws_session_end");
                if started {
                    rep.count("scenarios_with_an_upgraded_session_in_flight");
                    if ended.first().map(|e| *e > r).unwrap_or(true) {
                        rep.violation("C18/returned-before-sessions-finished", "howl returned while an upgraded (WebSocket) session was still being served", cj());
                        return;
                    }
                } else {
                    rep.count("ws_handshake_did_not_start_a_session");
                }
            }
            if ends.len() as u64 != n {
                rep.violation("C18/session-cut-short", &format!("{} of {n} slow handlers finished", ends.len()), cj());
            } else if ends.iter().any(|e| *e > r) {
                rep.violation("C18/returned-before-sessions-finished", "howl returned while a session was still being served", cj());
            } else if log.iter().any(|(_, e)| e.starts_with("client_got_response:") && e.ends_with(":false")) {
                rep.violation("C18/in-flight-response-lost", "a request in flight at the time of the interrupt did not get its response", cj());
            } else {
                rep.count("session_scenarios_ok");
                if rep.want_sample() && n >= 3 {
                    rep.sample(json!({"scenario": name, "completion_order": gates, "howl_returned_seq": r}));
                }
            }
        }
        Some("queued") => {
            rep.count("queued_session_scenarios");
            let returned = seq_of(&log, |e| e == "howl_returned");
            let ends = seq_of(&log, |e| e == "handler_end:0");
            rep.distinct(&format!("queued:{}", if ends.is_empty() { "unserved" } else { "served" }));
            if !v["howl_returned"].as_bool().unwrap_or(false) {
                rep.violation("C18/no-return-after-sessions", "the queued session finished (or never ran) but howl did not return within 10 s, nor within 100 s when the scenario was re-run alone", cj());
            } else if ends.is_empty() || ends[0] > returned.first().copied().unwrap_or(u64::MAX) {
                rep.violation("C18/returned-before-sessions-finished", "howl returned while a session that had been accepted before the interrupt was noticed (spawned, not yet polled) was still in flight", cj());
            } else if v["client_got_response"].as_bool() != Some(true) {
                rep.violation("C18/in-flight-response-lost", "the request of a session accepted before the interrupt was noticed did not get its response", cj());
            } else {
                rep.count("queued_session_served_before_howl_returned");
            }
        }
        _ => rep.count("inconclusive_children"),
    }
}
