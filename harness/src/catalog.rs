//! The catalogue application of the connection-level engines (C05, C06, TCP cross-check): an echo
//! handler that reports everything it can observe of a request, and a context-setting fang.

use crate::reqref::RefReq;
use ohkami::fang::FangAction;
use ohkami::{Ohkami, Request, Response, Route};

pub const PROBES: [&str; 14] = [
    "Host", "Content-Type", "X-A", "X-Trace", "Cookie", "Authorization", "Accept", "X-Token", "User-Agent", "X-Request-ID", "Content-Length", "Connection", "x-lower", "Referer",
];
pub const CTX_HEADER: &str = "X-Ctx";

#[derive(Clone)]
pub struct CtxVal(pub String);

#[derive(Clone)]
pub struct CtxFang;
impl FangAction for CtxFang {
    async fn fore<'a>(&'a self, req: &'a mut Request) -> Result<(), Response> {
        if let Some(v) = req.headers.get(CTX_HEADER).map(|s| s.to_string()) {
            req.context.set(CtxVal(v));
        }
        Ok(())
    }
}

pub fn hexs(b: &[u8]) -> String {
    crate::rng::hex(b)
}

fn echo(req: &Request) -> String {
    let mut s = String::new();
    s.push_str(&format!("m={}\n", req.method.as_str()));
    s.push_str(&format!("p={}\n", hexs(req.path.str().as_bytes())));
    s.push_str(&format!("a={}\n", req.path.params().map(|p| hexs(p.as_bytes())).collect::<Vec<_>>().join(",")));
    s.push_str(&format!("q={}\n", req.query.iter().map(|(k, v)| format!("{}={}", hexs(k.as_bytes()), hexs(v.as_bytes()))).collect::<Vec<_>>().join("&")));
    // the typed view of the same query (what `Query<T>` hands to a handler): strict where the iterator is lenient, so stale or foreign bytes
    // behind `req.query` show up as an error or as other pairs even when they contain no `=`
    s.push_str(&format!("qp={}\n", match req.query.parse::<std::collections::BTreeMap<String, String>>() {
        Ok(m) => m.iter().map(|(k, v)| format!("{}={}", hexs(k.as_bytes()), hexs(v.as_bytes()))).collect::<Vec<_>>().join("&"),
        Err(_) => "ERR".into(),
    }));
    for n in PROBES {
        s.push_str(&format!("h:{}={}\n", n, req.headers.get(n).map(|v| hexs(v.as_bytes())).unwrap_or_else(|| "-".into())));
    }
    s.push_str(&format!("c={}\n", req.context.get::<CtxVal>().map(|c| hexs(c.0.as_bytes())).unwrap_or_else(|| "-".into())));
    s.push_str(&format!("b={}\n", req.payload().map(hexs).unwrap_or_else(|| "-".into())));
    s
}

pub fn app() -> Ohkami {
    let h = |req: &Request| {
        let e = echo(req);
        async move { e }
    };
    Ohkami::new((
        CtxFang,
        "/echo/:p".GET(h).PUT(h).POST(h).PATCH(h).DELETE(h),
        "/echo".GET(h).POST(h),
        "/".GET(|| async { "root" }),
        "/nocontent".GET(|| async { Response::NoContent() }).POST(|| async { Response::NoContent() }),
    ))
}

/// the echo body the handler must produce for a request of the subset routed to /echo or /echo/:p
pub fn expected_echo(r: &RefReq) -> Option<String> {
    let path = r.path.strip_suffix('/').unwrap_or(&r.path);
    let param: Option<String> = if path == "/echo" {
        None
    } else if let Some(rest) = r.raw_path.strip_suffix(b"/").unwrap_or(&r.raw_path).strip_prefix(b"/echo/") {
        if rest.is_empty() || rest.contains(&b'/') {
            return None;
        }
        Some(String::from_utf8(crate::httpref::percent_decode_strict(rest).ok()?).ok()?)
    } else {
        return None;
    };
    let q = r.query_pairs()?;
    let mut s = String::new();
    s.push_str(&format!("m={}\n", r.method));
    s.push_str(&format!("p={}\n", hexs(if path.is_empty() { "/" } else { path }.as_bytes())));
    s.push_str(&format!("a={}\n", param.map(|p| hexs(p.as_bytes())).unwrap_or_default()));
    s.push_str(&format!("q={}\n", q.iter().map(|(k, v)| format!("{}={}", hexs(k.as_bytes()), hexs(v.as_bytes()))).collect::<Vec<_>>().join("&")));
    let qm: std::collections::BTreeMap<String, String> = q.iter().cloned().collect();
    s.push_str(&format!("qp={}\n", qm.iter().map(|(k, v)| format!("{}={}", hexs(k.as_bytes()), hexs(v.as_bytes()))).collect::<Vec<_>>().join("&")));
    for n in PROBES {
        s.push_str(&format!("h:{}={}\n", n, r.header(n).map(|v| hexs(v.as_bytes())).unwrap_or_else(|| "-".into())));
    }
    s.push_str(&format!("c={}\n", r.header(CTX_HEADER).map(|v| hexs(v.as_bytes())).unwrap_or_else(|| "-".into())));
    s.push_str(&format!("b={}\n", if r.body.is_empty() { "-".to_string() } else { hexs(&r.body) }));
    Some(s)
}

/// normalise the Date header so that responses can be compared byte for byte
pub fn normalise(resp: &[u8]) -> Vec<u8> {
    let mut out = resp.to_vec();
    if let Some(i) = out.windows(6).position(|w| w == b"Date: ") {
        let start = i + 6;
        if let Some(e) = out[start..].windows(2).position(|w| w == b"\r\n") {
            for b in &mut out[start..start + e] {
                *b = b'D';
            }
        }
    }
    out
}
