//! Thread-local append-only event log written by the harness's own fangs and handlers.

use std::cell::RefCell;

#[derive(Clone, Debug, PartialEq, Eq)]
pub enum Ev {
    Enter(u32),
    Leave(u32),
    Early(u32),
    /// handler id, rendered values it received
    Handler(u32, Vec<String>),
    Note(String),
}

impl Ev {
    pub fn show(&self) -> String {
        match self {
            Ev::Enter(i) => format!(">f{i}"),
            Ev::Leave(i) => format!("<f{i}"),
            Ev::Early(i) => format!("!f{i}"),
            Ev::Handler(i, v) => format!("h{i}{v:?}"),
            Ev::Note(s) => format!("#{s}"),
        }
    }
}

thread_local! {
    static LOG: RefCell<Vec<Ev>> = RefCell::new(Vec::new());
}

pub fn push(e: Ev) {
    LOG.with(|l| l.borrow_mut().push(e));
}
pub fn take() -> Vec<Ev> {
    LOG.with(|l| std::mem::take(&mut *l.borrow_mut()))
}
pub fn clear() {
    LOG.with(|l| l.borrow_mut().clear());
}
pub fn show(evs: &[Ev]) -> String {
    evs.iter().map(|e| e.show()).collect::<Vec<_>>().join(" ")
}
