//! Single-threaded executor with a counting waker. It decides "stuck" logically: a task that
//! returned `Pending` while no wake has been delivered since the poll began can never make
//! progress again in a harness that owns all I/O.

use std::future::Future;
use std::pin::Pin;
use std::sync::atomic::{AtomicU64, Ordering};
use std::sync::Arc;
use std::task::{Context, Poll, Wake, Waker};

pub struct CountWaker {
    pub wakes: AtomicU64,
}
impl Wake for CountWaker {
    fn wake(self: Arc<Self>) {
        self.wakes.fetch_add(1, Ordering::SeqCst);
    }
    fn wake_by_ref(self: &Arc<Self>) {
        self.wakes.fetch_add(1, Ordering::SeqCst);
    }
}

#[derive(Debug)]
pub enum Drive<T> {
    Ready(T),
    /// pending, and nobody holds a wake for the task
    Stuck,
    /// poll budget exhausted (inconclusive)
    Budget,
}

pub struct Stats {
    pub polls: u64,
    pub wakes: u64,
}

/// Poll `fut` until it is ready, stuck or `max_polls` is reached. `idle` is called when the
/// task is pending without a wake: it may fire an external event (returning true) – e.g. a
/// scripted producer wake – otherwise the task is declared stuck.
pub fn drive_with<F: Future>(
    mut fut: Pin<&mut F>,
    max_polls: u64,
    mut idle: impl FnMut(&Waker) -> bool,
) -> (Drive<F::Output>, Stats) {
    let cw = Arc::new(CountWaker { wakes: AtomicU64::new(0) });
    let waker = Waker::from(cw.clone());
    let mut cx = Context::from_waker(&waker);
    let mut polls = 0u64;
    let mut seen = 0u64;
    loop {
        if polls >= max_polls {
            return (Drive::Budget, Stats { polls, wakes: cw.wakes.load(Ordering::SeqCst) });
        }
        polls += 1;
        match fut.as_mut().poll(&mut cx) {
            Poll::Ready(t) => return (Drive::Ready(t), Stats { polls, wakes: cw.wakes.load(Ordering::SeqCst) }),
            Poll::Pending => {
                // no wake since the poll began: let the environment fire scripted events until
                // one of them wakes the task; if it has nothing left, the task is stuck
                while cw.wakes.load(Ordering::SeqCst) == seen {
                    if !idle(&waker) {
                        return (Drive::Stuck, Stats { polls, wakes: seen });
                    }
                }
                seen = cw.wakes.load(Ordering::SeqCst);
            }
        }
    }
}

pub fn drive<F: Future>(fut: Pin<&mut F>, max_polls: u64) -> (Drive<F::Output>, Stats) {
    drive_with(fut, max_polls, |_| false)
}

/// plain block_on for futures that are known to complete (spins on the counting waker)
pub fn block_on<F: Future>(fut: F) -> F::Output {
    let mut fut = std::pin::pin!(fut);
    match drive(fut.as_mut(), u64::MAX).0 {
        Drive::Ready(t) => t,
        Drive::Stuck => panic!("vh::exec::block_on: future is stuck (pending without a wake)"),
        Drive::Budget => unreachable!(),
    }
}
