use vh::report::{Args, Report};

fn main() {
    let argv: Vec<String> = std::env::args().skip(1).collect();
    if argv.is_empty() {
        eprintln!("usage: vh <engine> [--seed N] [--shard i --nshards n] [--budget N] [--start k] [--out file] [--replay file] [--<flag> v]");
        std::process::exit(64);
    }
    let args = Args::parse(&argv);
    vh::report::install_quiet_panic_hook();
    let mut rep = Report::new(&args);
    if !vh::engines::dispatch(&args, &mut rep) {
        eprintln!("unknown engine {}", args.engine);
        std::process::exit(64);
    }
    rep.finish();
}
