use vh::report::{Args, Report};

fn main() {
    let argv: Vec<String> = std::env::args().skip(1).collect();
    if argv.is_empty() {
        eprintln!("usage: vh <engine> [--seed N] [--shard i --nshards n] [--budget N] [--start k] [--out file] [--replay file] [--<flag> v]");
        std::process::exit(64);
    }
    let args = Args::parse(&argv);
    vh::report::install_quiet_panic_hook();
    let mut rep = Report::new(&args);
    // a panic that escapes an engine (outside the scopes in which the code under test is observed) ends the worker with exit code 65 and
    // its message: the driver tells a harness fault (inconclusive) from a panic inside /repo (an observation) by the location
    let ok = match std::panic::catch_unwind(std::panic::AssertUnwindSafe(|| vh::engines::dispatch(&args, &mut rep))) {
        Ok(ok) => ok,
        Err(_) => {
            eprintln!("ESCAPED-PANIC {}", vh::report::take_panic());
            std::process::exit(65);
        }
    };
    if !ok {
        eprintln!("unknown engine {}", args.engine);
        std::process::exit(64);
    }
    rep.finish();
}
