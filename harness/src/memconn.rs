//! Scripted in-memory connection: tokio `AsyncRead` + `AsyncWrite`.

use std::collections::VecDeque;
use std::io;
use std::pin::Pin;
use std::task::{Context, Poll};
use tokio::io::{AsyncRead, AsyncWrite, ReadBuf};

#[derive(Clone, Debug)]
pub enum Seg {
    /// bytes that arrive together (one read returns at most this segment)
    Data(Vec<u8>),
    /// the reader sees `Pending` once (and is woken immediately)
    Pending,
}

#[derive(Clone, Copy, Debug, PartialEq)]
pub enum End {
    /// orderly close by the peer
    Eof,
    /// the peer stays silent: `Pending` without a wake
    Hang,
    /// connection reset
    Reset,
}

pub struct Conn {
    pub script: VecDeque<Seg>,
    pub end: End,
    /// every write call, in order
    pub writes: Vec<Vec<u8>>,
    pub flushes: usize,
    pub reads: usize,
    pub bytes_delivered: usize,
    pub hung: bool,
    /// marks in `writes` (index) set by the harness, e.g. at response boundaries
    pub marks: Vec<usize>,
}

impl Conn {
    pub fn new(script: Vec<Seg>, end: End) -> Self {
        Conn { script: script.into(), end, writes: vec![], flushes: 0, reads: 0, bytes_delivered: 0, hung: false, marks: vec![] }
    }
    pub fn written(&self) -> Vec<u8> {
        self.writes.concat()
    }
    pub fn mark(&mut self) {
        self.marks.push(self.writes.len());
    }
    pub fn exhausted(&self) -> bool {
        self.script.iter().all(|s| matches!(s, Seg::Pending))
    }
}

impl AsyncRead for Conn {
    fn poll_read(mut self: Pin<&mut Self>, cx: &mut Context<'_>, buf: &mut ReadBuf<'_>) -> Poll<io::Result<()>> {
        let this = &mut *self;
        this.reads += 1;
        match this.script.pop_front() {
            Some(Seg::Pending) => {
                cx.waker().wake_by_ref();
                Poll::Pending
            }
            Some(Seg::Data(mut d)) => {
                if d.is_empty() {
                    // an empty segment is not observable on a socket; skip it
                    cx.waker().wake_by_ref();
                    return Poll::Pending;
                }
                let n = d.len().min(buf.remaining());
                if n == 0 {
                    this.script.push_front(Seg::Data(d));
                    return Poll::Ready(Ok(()));
                }
                buf.put_slice(&d[..n]);
                this.bytes_delivered += n;
                if n < d.len() {
                    let rest = d.split_off(n);
                    this.script.push_front(Seg::Data(rest));
                }
                Poll::Ready(Ok(()))
            }
            None => match this.end {
                End::Eof => Poll::Ready(Ok(())),
                End::Hang => {
                    this.hung = true;
                    Poll::Pending
                }
                End::Reset => Poll::Ready(Err(io::Error::new(io::ErrorKind::ConnectionReset, "reset"))),
            },
        }
    }
}

impl AsyncWrite for Conn {
    fn poll_write(mut self: Pin<&mut Self>, _cx: &mut Context<'_>, buf: &[u8]) -> Poll<io::Result<usize>> {
        self.writes.push(buf.to_vec());
        Poll::Ready(Ok(buf.len()))
    }
    fn poll_flush(mut self: Pin<&mut Self>, _cx: &mut Context<'_>) -> Poll<io::Result<()>> {
        self.flushes += 1;
        Poll::Ready(Ok(()))
    }
    fn poll_shutdown(self: Pin<&mut Self>, _cx: &mut Context<'_>) -> Poll<io::Result<()>> {
        Poll::Ready(Ok(()))
    }
}

/// write-only sink
pub struct Sink {
    pub writes: Vec<Vec<u8>>,
}
impl Sink {
    pub fn new() -> Self {
        Sink { writes: vec![] }
    }
    pub fn written(&self) -> Vec<u8> {
        self.writes.concat()
    }
}
impl AsyncWrite for Sink {
    fn poll_write(mut self: Pin<&mut Self>, _cx: &mut Context<'_>, buf: &[u8]) -> Poll<io::Result<usize>> {
        self.writes.push(buf.to_vec());
        Poll::Ready(Ok(buf.len()))
    }
    fn poll_flush(self: Pin<&mut Self>, _cx: &mut Context<'_>) -> Poll<io::Result<()>> {
        Poll::Ready(Ok(()))
    }
    fn poll_shutdown(self: Pin<&mut Self>, _cx: &mut Context<'_>) -> Poll<io::Result<()>> {
        Poll::Ready(Ok(()))
    }
}
