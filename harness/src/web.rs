//! Driving the real request reader, router and response writer over in-memory connections (hook H2).

use crate::exec::{drive, Drive};
use crate::memconn::{Conn, End, Seg};
use crate::report::catch;
use ohkami::__verif__ as hook;
use ohkami::{Request, Response};
use std::pin::Pin;

pub const IP: std::net::IpAddr = std::net::IpAddr::V4(std::net::Ipv4Addr::new(10, 1, 2, 3));

/// what happened to one request of a connection
#[derive(Debug, Clone, PartialEq)]
pub enum Step {
    /// the request was parsed and handled; the bytes of its response
    Handled(Vec<u8>),
    /// the reader refused the bytes with an error response (session continues)
    Refused(Vec<u8>),
    /// the reader asked to close the connection (EOF, unknown method, reset)
    Closed,
    /// panic in read / handle / send
    Panicked(String),
    /// pending on the connection while nothing more will arrive and no wake is owed
    Stuck,
    /// executor budget exhausted (inconclusive)
    Budget,
}

impl Step {
    pub fn response(&self) -> Option<&[u8]> {
        match self {
            Step::Handled(b) | Step::Refused(b) => Some(b),
            _ => None,
        }
    }
    pub fn kind(&self) -> &'static str {
        match self {
            Step::Handled(_) => "handled",
            Step::Refused(_) => "refused",
            Step::Closed => "closed",
            Step::Panicked(_) => "panicked",
            Step::Stuck => "stuck",
            Step::Budget => "budget",
        }
    }
}

pub struct Session {
    pub steps: Vec<Step>,
    /// everything written to the connection
    pub written: Vec<u8>,
    pub writes: Vec<Vec<u8>>,
    pub delivered: usize,
    pub hung_on_read: bool,
}

/// The loop of `Session::manage` (session/mod.rs) re-expressed over the hooks:
/// clear, read, handle (panic caught), send, close on `Connection: close` / upgrade / `Ok(None)`,
/// error response and continue on `Err`. `inspect` is called with the parsed request before it is handled.
pub fn session(router: &hook::Router, script: Vec<Seg>, end: End, max_requests: usize, mut inspect: impl FnMut(&mut Request)) -> Session {
    let mut conn = Conn::new(script, end);
    let mut steps = vec![];
    let mut req = hook::request_new(IP);
    let mut req = Pin::new(&mut req);
    for _ in 0..max_requests {
        let before = conn.writes.len();
        let r = catch(|| {
            let fut = async {
                hook::request_clear(req.as_mut().get_mut());
                match hook::request_read(req.as_mut(), &mut conn).await {
                    Ok(Some(())) => {
                        let close = matches!(req.headers.Connection(), Some("close" | "Close"));
                        inspect(req.as_mut().get_mut());
                        let res = router.handle(req.as_mut().get_mut()).await;
                        let upgrade = hook::response_send(res, &mut conn).await;
                        (1u8, close || upgrade)
                    }
                    Ok(None) => (0u8, true),
                    Err(res) => {
                        hook::response_send(res, &mut conn).await;
                        (2u8, false)
                    }
                }
            };
            let mut fut = std::pin::pin!(fut);
            drive(fut.as_mut(), 1_000_000).0
        });
        let wrote: Vec<u8> = conn.writes[before..].concat();
        match r {
            Err(p) => {
                steps.push(Step::Panicked(p));
                break;
            }
            Ok(Drive::Stuck) => {
                steps.push(Step::Stuck);
                break;
            }
            Ok(Drive::Budget) => {
                steps.push(Step::Budget);
                break;
            }
            Ok(Drive::Ready((kind, close))) => {
                match kind {
                    1 => steps.push(Step::Handled(wrote)),
                    2 => steps.push(Step::Refused(wrote)),
                    _ => steps.push(Step::Closed),
                }
                if close {
                    break;
                }
            }
        }
    }
    Session { steps, written: conn.writes.concat(), writes: conn.writes.clone(), delivered: conn.bytes_delivered, hung_on_read: conn.hung }
}

/// one request on a fresh connection, all bytes available, peer then silent
pub fn oneshot(router: &hook::Router, bytes: &[u8]) -> Step {
    let s = session(router, vec![Seg::Data(bytes.to_vec())], End::Hang, 1, |_| {});
    s.steps.into_iter().next().unwrap_or(Step::Closed)
}

/// send a Response value through the real serializer; Err(panic message)
pub fn send_response(res: Response) -> Result<(Vec<Vec<u8>>, bool), String> {
    let mut sink = crate::memconn::Sink::new();
    let r = catch(|| {
        let fut = hook::response_send(res, &mut sink);
        let mut fut = std::pin::pin!(fut);
        match drive(fut.as_mut(), 1_000_000).0 {
            Drive::Ready(up) => Ok(up),
            Drive::Stuck => Err("send is stuck".to_string()),
            Drive::Budget => Err("send exceeded the poll budget".to_string()),
        }
    });
    match r {
        Ok(Ok(up)) => Ok((sink.writes, up)),
        Ok(Err(e)) => Err(e),
        Err(p) => Err(format!("panic: {p}")),
    }
}

pub fn build_request(method: &str, target: &str, headers: &[(&str, &str)], body: &[u8]) -> Vec<u8> {
    let mut v = Vec::new();
    v.extend_from_slice(method.as_bytes());
    v.push(b' ');
    v.extend_from_slice(target.as_bytes());
    v.extend_from_slice(b" HTTP/1.1\r\n");
    for (k, val) in headers {
        v.extend_from_slice(k.as_bytes());
        v.extend_from_slice(b": ");
        v.extend_from_slice(val.as_bytes());
        v.extend_from_slice(b"\r\n");
    }
    v.extend_from_slice(b"\r\n");
    v.extend_from_slice(body);
    v
}

pub const METHODS: [&str; 7] = ["GET", "PUT", "POST", "PATCH", "DELETE", "HEAD", "OPTIONS"];
