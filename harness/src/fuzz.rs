//! Coverage-guided *workload generation* (libFuzzer, see harness/fuzz). The fuzzer only proposes inputs; what decides is the same monitor
//! code the generated workloads use (engines c08 / c02). Two entry points per target:
//!   * `decoders(data)` / `request(data)` - called by the fuzz targets; return true iff a monitor recorded a violation for this input
//!     (the fuzz target then aborts, so that libFuzzer keeps the input as an artifact);
//!   * `vh fuzzreplay --target T --dir D` - runs every file of D through the same code in an ordinary worker, so that violations are
//!     reported with their usual signatures, attributed through known_findings.json, and replayable.
use crate::engines::{c02, c08};
use crate::report::{Args, Report};
use std::cell::RefCell;

thread_local! {
    static REP: RefCell<Option<Report>> = RefCell::new(None);
    static TABLES: Vec<(&'static str, Vec<(&'static str, c08::Call)>)> = c08::tables();
    static ROUTER: ohkami::__verif__::Router = ohkami::__verif__::Router::new(ohkami::Ohkami::new(()));
}

fn with_null_report<R>(f: impl FnOnce(&mut Report) -> R) -> R {
    REP.with(|r| {
        let mut r = r.borrow_mut();
        if r.is_none() {
            crate::report::install_quiet_panic_hook();
            let args = Args::parse(&["fuzz".to_string(), "--out".to_string(), "/dev/null".to_string()]);
            let mut rep = Report::new(&args);
            rep.no_journal();
            *r = Some(rep);
        }
        f(r.as_mut().unwrap())
    })
}

/// first byte selects the decoder, the rest is its input; every target type of that decoder runs on it
pub fn decoders_on(rep: &mut Report, case: u64, data: &[u8]) {
    if data.is_empty() {
        return;
    }
    TABLES.with(|t| {
        let (dname, table) = &t[(data[0] % 4) as usize];
        c08::run_input(rep, case, dname, table, &data[1..], "coverage-guided", false);
    });
}

/// the bytes are what the first read of a connection returns
pub fn request_on(rep: &mut Report, case: u64, data: &[u8]) {
    if data.len() > 1000 {
        // C02's own generator keeps heads below the 1 KiB buffer; longer inputs are the known reader design (C06)
        return;
    }
    ROUTER.with(|router| c02::check(rep, case, router, data, Some("coverage-guided"), "coverage-guided"));
}

/// one case of an ordinary engine whose generator decisions are read from `data` (a decision tape, see rng.rs): the fuzzer mutates
/// decisions, the engine's own oracle judges. `spec` = "<engine>[,flag=value...]", e.g. "c03" or "c05,mode=c06".
pub fn case_on(rep: &mut Report, spec: &str, data: &[u8]) {
    let mut parts = spec.split(',');
    let engine = parts.next().unwrap_or("");
    // the case index (some engines walk a matrix by it) comes from the tape as well; never 0, where witnesses run
    let k = 1 + (u16::from_le_bytes([data.first().copied().unwrap_or(0), data.get(1).copied().unwrap_or(0)]) as u64 % 4096);
    let mut argv: Vec<String> = vec![engine.to_string(), "--shard".into(), "0".into(), "--nshards".into(), "1".into(), "--start".into(), k.to_string(), "--budget".into(), (k + 1).to_string(), "--out".into(), "/dev/null".into()];
    for kv in parts {
        if let Some((k, v)) = kv.split_once('=') {
            argv.push(format!("--{k}"));
            argv.push(v.to_string());
        }
    }
    let args = Args::parse(&argv);
    crate::rng::set_tape(Some(data));
    let journal = rep.set_journal(false);
    crate::engines::dispatch(&args, rep);
    rep.set_journal(journal);
    crate::rng::set_tape(None);
}

pub fn cases(data: &[u8]) -> bool {
    thread_local! { static SPEC: String = std::env::var("VH_FUZZ_ENGINE").unwrap_or_else(|_| "c03".into()); }
    if data.len() < 8 {
        return false;
    }
    SPEC.with(|spec| with_null_report(|rep| { let before = rep.violations; case_on(rep, spec, data); rep.violations > before }))
}

pub fn decoders(data: &[u8]) -> bool {
    with_null_report(|rep| { let before = rep.violations; decoders_on(rep, 0, data); rep.violations > before })
}

pub fn request(data: &[u8]) -> bool {
    with_null_report(|rep| { let before = rep.violations; request_on(rep, 0, data); rep.violations > before })
}

/// `vh fuzzreplay --target decoders|request --dir D`: every file of D (sorted by name), one case per file
pub fn replay(args: &Args, rep: &mut Report) {
    let dir = args.flag("dir").expect("--dir");
    let target = args.flag("target").unwrap_or("decoders").to_string();
    let mut files: Vec<std::path::PathBuf> = std::fs::read_dir(dir).map(|d| d.filter_map(|e| e.ok()).map(|e| e.path()).filter(|p| p.is_file()).collect()).unwrap_or_default();
    files.sort();
    for (i, f) in files.iter().enumerate() {
        let i = i as u64;
        if i % args.nshards != args.shard || i < args.start {
            continue;
        }
        let Ok(data) = std::fs::read(f) else { continue };
        rep.begin_with(i, serde_json::json!({"file": f.display().to_string()}));
        rep.count("inputs_replayed");
        rep.input_file = Some(f.display().to_string());
        match target.as_str() {
            "request" => request_on(rep, i, &data),
            t if t.starts_with("case:") => case_on(rep, &t[5..], &data),
            _ => decoders_on(rep, i, &data),
        }
        rep.end(i);
    }
    rep.input_file = None;
}
