//! Deterministic generator (xoshiro256** seeded through SplitMix64). No external crates, so that
//! the same seed gives the same workload under every build variant (rel, dbg, asan, miri).

#[derive(Clone)]
pub struct Rng {
    s: [u64; 4],
    /// decision tape (coverage-guided workload generation, see fuzz.rs): while it lasts, every draw is read from it - two bytes per
    /// draw, so that a mutation of the tape is a change of one decision of the generator - and the xoshiro state takes over afterwards
    tape: Option<(std::sync::Arc<[u8]>, usize)>,
}

thread_local! {
    static TAPE: std::cell::RefCell<Option<(Vec<u8>, bool)>> = std::cell::RefCell::new(None);
}
/// install (or remove) the decision tape for the next case run on this thread (see `Rng::derive`)
pub fn set_tape(tape: Option<&[u8]>) {
    TAPE.with(|t| *t.borrow_mut() = tape.map(|b| (b.to_vec(), false)));
}

fn splitmix(x: &mut u64) -> u64 {
    *x = x.wrapping_add(0x9E3779B97F4A7C15);
    let mut z = *x;
    z = (z ^ (z >> 30)).wrapping_mul(0xBF58476D1CE4E5B9);
    z = (z ^ (z >> 27)).wrapping_mul(0x94D049BB133111EB);
    z ^ (z >> 31)
}

impl Rng {
    pub fn new(seed: u64) -> Self {
        let mut x = seed;
        let s = [splitmix(&mut x), splitmix(&mut x), splitmix(&mut x), splitmix(&mut x)];
        Rng { s, tape: None }
    }
    /// a generator whose first draws are dictated by `tape` (and whose later ones depend on nothing else)
    pub fn from_tape(tape: &[u8]) -> Self {
        let mut r = Rng::new(fnv(tape));
        r.tape = Some((tape.into(), 0));
        r
    }
    /// independent stream for (seed, stream, index)
    pub fn derive(seed: u64, stream: u64, index: u64) -> Self {
        // coverage-guided mode: the first generator a case derives follows the decision tape, later ones depend on it through its hash
        if let Some(r) = TAPE.with(|t| {
            let mut t = t.borrow_mut();
            let (tape, taken) = t.as_mut()?;
            if !*taken {
                *taken = true;
                Some(Rng::from_tape(tape))
            } else {
                Some(Rng::new(fnv(tape) ^ stream.wrapping_mul(0xD6E8FEB86659FD93) ^ index.wrapping_mul(0xA0761D6478BD642F) ^ seed))
            }
        }) {
            return r;
        }
        let mut x = seed ^ stream.wrapping_mul(0xD6E8FEB86659FD93) ^ index.wrapping_mul(0xA0761D6478BD642F);
        let a = splitmix(&mut x);
        Rng::new(a ^ index.rotate_left(17) ^ stream.rotate_left(41))
    }
    pub fn u64(&mut self) -> u64 {
        if let Some((t, pos)) = &mut self.tape {
            if *pos + 2 <= t.len() {
                let v = u16::from_le_bytes([t[*pos], t[*pos + 1]]) as u64;
                *pos += 2;
                // small values as they are (so that `% n` follows the tape closely); the upper half of the range is spread over 64 bits
                return if v < 0x8000 { v } else { let mut x = v; splitmix(&mut x) };
            }
            self.tape = None;
        }
        let r = self.s[1].wrapping_mul(5).rotate_left(7).wrapping_mul(9);
        let t = self.s[1] << 17;
        self.s[2] ^= self.s[0];
        self.s[3] ^= self.s[1];
        self.s[1] ^= self.s[2];
        self.s[0] ^= self.s[3];
        self.s[2] ^= t;
        self.s[3] = self.s[3].rotate_left(45);
        r
    }
    /// uniform in 0..n (n > 0)
    pub fn below(&mut self, n: usize) -> usize {
        debug_assert!(n > 0);
        (self.u64() % (n as u64)) as usize
    }
    /// uniform in lo..=hi
    pub fn range(&mut self, lo: usize, hi: usize) -> usize {
        lo + self.below(hi - lo + 1)
    }
    pub fn chance(&mut self, num: u32, den: u32) -> bool {
        (self.u64() % den as u64) < num as u64
    }
    pub fn bool(&mut self) -> bool {
        self.u64() & 1 == 1
    }
    pub fn pick<'a, T>(&mut self, xs: &'a [T]) -> &'a T {
        &xs[self.below(xs.len())]
    }
    pub fn pick_weighted<'a, T>(&mut self, xs: &'a [(u32, T)]) -> &'a T {
        let total: u32 = xs.iter().map(|x| x.0).sum();
        let mut k = (self.u64() % total as u64) as u32;
        for (w, x) in xs {
            if k < *w {
                return x;
            }
            k -= *w;
        }
        unreachable!()
    }
    pub fn shuffle<T>(&mut self, xs: &mut [T]) {
        for i in (1..xs.len()).rev() {
            let j = self.below(i + 1);
            xs.swap(i, j);
        }
    }
    pub fn bytes(&mut self, n: usize) -> Vec<u8> {
        (0..n).map(|_| self.u64() as u8).collect()
    }
    pub fn byte(&mut self) -> u8 {
        self.u64() as u8
    }
    /// a unicode scalar value biased to interesting planes
    pub fn unicode_char(&mut self) -> char {
        loop {
            let c = match self.below(10) {
                0..=3 => self.range(0x20, 0x7e) as u32,
                4 => self.range(0x80, 0x7ff) as u32,
                5 | 6 => self.range(0x800, 0xffff) as u32,
                7 => self.range(0x10000, 0x10ffff) as u32,
                8 => *self.pick(&[0x0au32, 0x0d, 0x09, 0x00, 0x7f, 0x85, 0x2028, 0x2029, 0xfeff, 0xfffd]),
                _ => *self.pick(&[b'&' as u32, b'=' as u32, b'%' as u32, b'+' as u32, b',' as u32, b' ' as u32, b';' as u32, b'"' as u32, b'\\' as u32, b'/' as u32, b'?' as u32, b'#' as u32, b':' as u32]),
            };
            if let Some(c) = char::from_u32(c) {
                return c;
            }
        }
    }
    pub fn unicode_string(&mut self, max_chars: usize) -> String {
        let n = self.below(max_chars + 1);
        (0..n).map(|_| self.unicode_char()).collect()
    }
    /// string over a fixed alphabet
    pub fn string_over(&mut self, alphabet: &[u8], min: usize, max: usize) -> String {
        let n = self.range(min, max);
        (0..n).map(|_| *self.pick(alphabet) as char).collect()
    }
}

pub fn hex(bytes: &[u8]) -> String {
    let mut s = String::with_capacity(bytes.len() * 2);
    for b in bytes {
        s.push_str(&format!("{:02x}", b));
    }
    s
}
pub fn unhex(s: &str) -> Vec<u8> {
    (0..s.len() / 2).map(|i| u8::from_str_radix(&s[2 * i..2 * i + 2], 16).unwrap()).collect()
}
/// printable rendering for samples / logs
pub fn show(bytes: &[u8]) -> String {
    let mut s = String::new();
    for &b in bytes.iter().take(400) {
        match b {
            b'\r' => s.push_str("\\r"),
            b'\n' => s.push_str("\\n"),
            b'\\' => s.push_str("\\\\"),
            0x20..=0x7e => s.push(b as char),
            _ => s.push_str(&format!("\\x{:02x}", b)),
        }
    }
    if bytes.len() > 400 {
        s.push_str(&format!("...(+{} bytes)", bytes.len() - 400));
    }
    s
}

pub fn fnv(bytes: &[u8]) -> u64 {
    let mut h: u64 = 0xcbf29ce484222325;
    for b in bytes {
        h ^= *b as u64;
        h = h.wrapping_mul(0x100000001b3);
    }
    h
}
