//! Worker-side reporting: a JSONL file with a case journal (so that the driver can attribute a
//! process death to the case that was running), violation records and a final summary.

use serde_json::{json, Value};
use std::collections::{BTreeMap, HashSet};
use std::fs::File;
use std::io::Write;

pub struct Args {
    pub engine: String,
    pub seed: u64,
    pub shard: u64,
    pub nshards: u64,
    pub budget: u64,
    pub start: u64,
    pub out: String,
    pub replay: Option<String>,
    pub extra: BTreeMap<String, String>,
}

impl Args {
    pub fn parse(argv: &[String]) -> Args {
        let mut a = Args {
            engine: argv.get(0).cloned().unwrap_or_default(),
            seed: 1,
            shard: 0,
            nshards: 1,
            budget: 100,
            start: 0,
            out: "/dev/stdout".into(),
            replay: None,
            extra: BTreeMap::new(),
        };
        let mut i = 1;
        while i < argv.len() {
            let k = argv[i].as_str();
            let v = argv.get(i + 1).cloned().unwrap_or_default();
            match k {
                "--seed" => a.seed = v.parse().expect("--seed"),
                "--shard" => a.shard = v.parse().expect("--shard"),
                "--nshards" => a.nshards = v.parse().expect("--nshards"),
                "--budget" => a.budget = v.parse().expect("--budget"),
                "--start" => a.start = v.parse().expect("--start"),
                "--out" => a.out = v,
                "--replay" => a.replay = Some(v),
                _ if k.starts_with("--") => {
                    a.extra.insert(k[2..].to_string(), v);
                }
                _ => panic!("bad argument {k}"),
            }
            i += 2;
        }
        a
    }
    pub fn flag(&self, k: &str) -> Option<&str> {
        self.extra.get(k).map(|s| s.as_str())
    }
}

pub struct Report {
    /// replay of recorded inputs (fuzz.rs): the file the current case was read from, added to every violation record
    pub input_file: Option<String>,
    out: File,
    pub evaluations: u64,
    distinct: HashSet<u64>,
    pub counters: BTreeMap<String, u64>,
    samples: Vec<Value>,
    max_samples: usize,
    viol_per_sig: BTreeMap<String, u64>,
    pub violations: u64,
    journal: bool,
}

impl Report {
    pub fn new(args: &Args) -> Report {
        let out = File::create(&args.out).expect("cannot create report file");
        Report {
            input_file: None,
            out,
            evaluations: 0,
            distinct: HashSet::new(),
            counters: BTreeMap::new(),
            samples: vec![],
            max_samples: 6,
            viol_per_sig: BTreeMap::new(),
            violations: 0,
            journal: true,
        }
    }
    pub fn no_journal(&mut self) {
        self.journal = false;
    }
    /// returns the previous setting
    pub fn set_journal(&mut self, on: bool) -> bool {
        std::mem::replace(&mut self.journal, on)
    }
    fn line(&mut self, v: Value) {
        let mut s = serde_json::to_string(&v).unwrap();
        s.push('\n');
        let _ = self.out.write_all(s.as_bytes());
    }
    /// journal: a case begins (flushed, so that a dying process leaves it behind)
    pub fn begin(&mut self, case: u64) {
        if self.journal {
            self.line(json!({"t": "begin", "case": case}));
        }
    }
    pub fn begin_with(&mut self, case: u64, detail: Value) {
        if self.journal {
            self.line(json!({"t": "begin", "case": case, "detail": detail}));
        }
    }
    pub fn end(&mut self, case: u64) {
        if self.journal {
            self.line(json!({"t": "end", "case": case}));
        }
    }
    pub fn eval(&mut self) {
        self.evaluations += 1;
    }
    pub fn evals(&mut self, n: u64) {
        self.evaluations += n;
    }
    pub fn count(&mut self, key: &str) {
        *self.counters.entry(key.to_string()).or_insert(0) += 1;
    }
    pub fn count_n(&mut self, key: &str, n: u64) {
        *self.counters.entry(key.to_string()).or_insert(0) += n;
    }
    pub fn max(&mut self, key: &str, v: u64) {
        let e = self.counters.entry(key.to_string()).or_insert(0);
        if v > *e {
            *e = v;
        }
    }
    /// record a distinct non-trivial case key
    pub fn distinct(&mut self, key: &str) {
        self.distinct.insert(crate::rng::fnv(key.as_bytes()));
    }
    pub fn distinct_hash(&mut self, h: u64) {
        self.distinct.insert(h);
    }
    pub fn sample(&mut self, v: Value) {
        if self.samples.len() < self.max_samples {
            self.samples.push(v);
        }
    }
    pub fn want_sample(&self) -> bool {
        self.samples.len() < self.max_samples
    }
    /// an observation that contradicts the property. `sig` is the attribution signature
    /// (defect model that explains it, or `unexplained:<class>`), `what` a one-line description.
    pub fn violation(&mut self, sig: &str, what: &str, mut case: Value) {
        self.violations += 1;
        if let (Some(f), Some(o)) = (&self.input_file, case.as_object_mut()) {
            o.insert("input_file".into(), json!(f));
        }
        let n = self.viol_per_sig.entry(sig.to_string()).or_insert(0);
        *n += 1;
        if *n <= 3 {
            self.line(json!({"t": "viol", "sig": sig, "what": what, "case": case}));
        }
    }
    pub fn finish(mut self) {
        let distinct: Vec<u64> = self.distinct.iter().copied().collect();
        let v = json!({
            "t": "summary",
            "evaluations": self.evaluations,
            "distinct_hashes": distinct,
            "counters": self.counters,
            "samples": self.samples,
            "violations": self.violations,
            "viol_per_sig": self.viol_per_sig,
        });
        self.line(v);
    }
}

/* ---------- panic capture ---------- */

use std::cell::RefCell;
thread_local! {
    static LAST_PANIC: RefCell<Option<String>> = RefCell::new(None);
}

pub fn install_quiet_panic_hook() {
    std::panic::set_hook(Box::new(|info| {
        let loc = info.location().map(|l| format!("{}:{}", l.file(), l.line())).unwrap_or_default();
        let msg = if let Some(s) = info.payload().downcast_ref::<&str>() {
            s.to_string()
        } else if let Some(s) = info.payload().downcast_ref::<String>() {
            s.clone()
        } else {
            "<non-string panic>".to_string()
        };
        LAST_PANIC.with(|p| *p.borrow_mut() = Some(format!("{msg} @ {loc}")));
        if std::env::var_os("VH_SHOW_PANICS").is_some() {
            eprintln!("[panic] {msg} @ {loc}");
        }
    }));
}
pub fn take_panic() -> String {
    LAST_PANIC.with(|p| p.borrow_mut().take()).unwrap_or_else(|| "<unknown panic>".into())
}

/// run `f`, converting a panic into Err(message @ file:line)
pub fn catch<T>(f: impl FnOnce() -> T) -> Result<T, String> {
    match std::panic::catch_unwind(std::panic::AssertUnwindSafe(f)) {
        Ok(t) => Ok(t),
        Err(_) => Err(take_panic()),
    }
}

/// strip the machine-specific prefix and the line number noise from a panic location so that it can serve
/// in a signature: keeps `file:line`
pub fn panic_site(p: &str) -> String {
    match p.rfind(" @ ") {
        Some(i) => {
            let loc = &p[i + 3..];
            let loc = loc.rsplit("/repo/").next().unwrap_or(loc);
            loc.to_string()
        }
        None => String::new(),
    }
}
