//! Reference request parser for the supported HTTP/1.1 subset (C02) and a structured request generator
//! shared by C02 / C05 / C06. No code shared with ohkami or byte_reader.

use crate::httpref::percent_decode_strict;
use crate::rng::Rng;

#[derive(Clone, Debug, PartialEq)]
pub struct RefReq {
    pub method: String,
    /// raw path bytes (before '?')
    pub raw_path: Vec<u8>,
    /// percent-decoded path (UTF-8)
    pub path: String,
    pub raw_query: Option<Vec<u8>>,
    /// (lower-cased name, values in wire order)
    pub headers: Vec<(String, Vec<String>)>,
    pub body: Vec<u8>,
    /// bytes of the input this request occupies
    pub consumed: usize,
    /// Content-Length announced more bytes than the input holds
    pub body_short: bool,
    pub head_len: usize,
}

impl RefReq {
    pub fn header(&self, name: &str) -> Option<String> {
        let n = name.to_ascii_lowercase();
        self.headers.iter().find(|(k, _)| *k == n).map(|(_, v)| v.join(", "))
    }
    /// decoded query pairs (split on '&', first '='), None if some pair is outside the `key=value` grammar
    pub fn query_pairs(&self) -> Option<Vec<(String, String)>> {
        let q = match &self.raw_query {
            None => return Some(vec![]),
            Some(q) => q,
        };
        if q.is_empty() {
            return Some(vec![]);
        }
        let mut out = vec![];
        for kv in q.split(|&b| b == b'&') {
            let i = kv.iter().position(|&b| b == b'=')?;
            if i == 0 {
                return None;
            }
            let k = String::from_utf8(percent_decode_strict(&kv[..i]).ok()?).ok()?;
            let v = String::from_utf8(percent_decode_strict(&kv[i + 1..]).ok()?).ok()?;
            out.push((k, v));
        }
        Some(out)
    }
}

pub const METHODS: [&str; 7] = ["GET", "PUT", "POST", "PATCH", "DELETE", "HEAD", "OPTIONS"];

fn is_tchar(b: u8) -> bool {
    b.is_ascii_alphanumeric() || b"!#$%&'*+-.^_`|~".contains(&b)
}

/// Strict parser of the subset. Err(reason) if the bytes (from the start) are not a request of the subset.
pub fn parse_request(input: &[u8]) -> Result<RefReq, String> {
    let find = |needle: &[u8], from: usize| -> Option<usize> { (from..input.len().saturating_sub(needle.len() - 1)).find(|&i| &input[i..i + needle.len()] == needle) };
    let head_end = find(b"\r\n\r\n", 0).ok_or("truncated|head not terminated by CRLFCRLF")?;
    let head = &input[..head_end];
    let mut lines: Vec<&[u8]> = vec![];
    let mut pos = 0;
    loop {
        match (pos..head.len().saturating_sub(1)).find(|&i| &head[i..i + 2] == b"\r\n") {
            Some(i) => {
                lines.push(&head[pos..i]);
                pos = i + 2;
            }
            None => {
                lines.push(&head[pos..]);
                break;
            }
        }
    }
    for l in &lines {
        if l.iter().any(|&b| b == b'\r' || b == b'\n' || b == 0) {
            return Err(if l.contains(&0) { "nul|NUL inside a line" } else { "line-end|bare CR or LF inside a line" }.into());
        }
    }
    // request line: METHOD SP target SP HTTP/1.1
    let rl = lines[0];
    let parts: Vec<&[u8]> = rl.split(|&b| b == b' ').collect();
    if parts.len() != 3 {
        return Err("request-line|request line does not have exactly two spaces".into());
    }
    let method = std::str::from_utf8(parts[0]).map_err(|_| "request-line|method")?;
    if !METHODS.contains(&method) {
        return Err(format!("request-line|unknown method {method:?}"));
    }
    if parts[2] != b"HTTP/1.1" {
        return Err("request-line|version is not HTTP/1.1".into());
    }
    let target = parts[1];
    if target.first() != Some(&b'/') {
        return Err("request-line|target is not origin-form".into());
    }
    if !target.iter().all(|&b| (0x21..=0x7e).contains(&b)) {
        return Err("target-bytes|target has bytes outside visible ASCII".into());
    }
    let (raw_path, raw_query) = match target.iter().position(|&b| b == b'?') {
        Some(i) => (target[..i].to_vec(), Some(target[i + 1..].to_vec())),
        None => (target.to_vec(), None),
    };
    let path = String::from_utf8(percent_decode_strict(&raw_path).map_err(|e| format!("escape|path escape: {e}"))?).map_err(|_| "non-utf8|path does not decode to UTF-8")?;
    if path.contains('\0') {
        // `%00` in the path: outside the subset (ohkami refuses it with 400, as it refuses a raw NUL)
        return Err("nul|path decodes to a NUL".into());
    }
    // headers
    let mut headers: Vec<(String, Vec<String>)> = vec![];
    for l in &lines[1..] {
        let c = l.iter().position(|&b| b == b':').ok_or("separator|header line without colon")?;
        let name = &l[..c];
        if name.is_empty() || !name.iter().all(|&b| is_tchar(b)) {
            return Err(if name.is_empty() { "separator|empty header name" } else { "header-name|header name is not a token" }.into());
        }
        if l.get(c + 1) != Some(&b' ') {
            return Err("separator|header separator is not colon-space".into());
        }
        let v = &l[c + 2..];
        if v.first() == Some(&b' ') || v.first() == Some(&b'\t') || v.last() == Some(&b' ') || v.last() == Some(&b'\t') {
            return Err("value-ws|header value with leading/trailing whitespace".into());
        }
        let v = std::str::from_utf8(v).map_err(|_| "non-utf8|header value is not UTF-8")?.to_string();
        let n = String::from_utf8_lossy(name).to_ascii_lowercase();
        match headers.iter_mut().find(|(k, _)| *k == n) {
            Some(e) => e.1.push(v),
            None => headers.push((n, vec![v])),
        }
    }
    if headers.iter().any(|(k, _)| k == "transfer-encoding") {
        return Err("transfer-encoding|Transfer-Encoding is outside the subset (bodies are announced by Content-Length)".into());
    }
    let cl = headers.iter().find(|(k, _)| k == "content-length");
    let n = match cl {
        None => 0usize,
        Some((_, vs)) => {
            if vs.len() != 1 {
                return Err("content-length|several Content-Length lines".into());
            }
            let v = &vs[0];
            if v.is_empty() || !v.bytes().all(|b| b.is_ascii_digit()) {
                return Err("content-length|Content-Length is not a sequence of decimal digits".into());
            }
            // any number of leading zeros denotes the same number (the statement refuses non-numeric and overflowing lengths, not long ones)
            let sig = v.trim_start_matches('0');
            if sig.len() > 10 {
                return Err("content-length|Content-Length beyond the payload limit".into());
            }
            let n: u64 = if sig.is_empty() { 0 } else { sig.parse().unwrap() };
            if n >= (1u64 << 32) {
                return Err("content-length|Content-Length beyond the payload limit".into());
            }
            n as usize
        }
    };
    let body_start = head_end + 4;
    let avail = input.len() - body_start;
    let body_short = avail < n;
    let body = input[body_start..body_start + n.min(avail)].to_vec();
    Ok(RefReq { method: method.to_string(), raw_path, path, raw_query, headers, consumed: body_start + n.min(avail), body, body_short, head_len: body_start })
}

/* ------------------------------ structured generator ------------------------------ */

#[derive(Clone, Debug)]
pub struct GenReq {
    pub method: &'static str,
    pub target: String,
    /// (name as written, value)
    pub headers: Vec<(String, String)>,
    pub body: Vec<u8>,
    /// feature vector for coverage accounting
    pub features: String,
}

impl GenReq {
    pub fn bytes(&self) -> Vec<u8> {
        let mut v = format!("{} {} HTTP/1.1\r\n", self.method, self.target).into_bytes();
        for (k, val) in &self.headers {
            v.extend_from_slice(k.as_bytes());
            v.extend_from_slice(b": ");
            v.extend_from_slice(val.as_bytes());
            v.extend_from_slice(b"\r\n");
        }
        v.extend_from_slice(b"\r\n");
        v.extend_from_slice(&self.body);
        v
    }
    pub fn head_len(&self) -> usize {
        self.bytes().len() - self.body.len()
    }
}

pub const STD_REQ_HEADERS: [&str; 46] = [
    "Accept", "Accept-Encoding", "Accept-Language", "Access-Control-Request-Headers", "Access-Control-Request-Method", "Authorization", "Cache-Control", "Connection", "Content-Disposition",
    "Content-Encoding", "Content-Language", "Content-Length", "Content-Location", "Content-Type", "Cookie", "Date", "Expect", "Forwarded", "From", "Host", "If-Match", "If-Modified-Since",
    "If-None-Match", "If-Range", "If-Unmodified-Since", "Link", "Max-Forwards", "Origin", "Proxy-Authorization", "Range", "Referer", "Sec-Fetch-Dest", "Sec-Fetch-Mode", "Sec-Fetch-Site",
    "Sec-Fetch-User", "Sec-WebSocket-Extensions", "Sec-WebSocket-Key", "Sec-WebSocket-Protocol", "Sec-WebSocket-Version", "TE", "Trailer", "Transfer-Encoding", "User-Agent", "Upgrade",
    "Upgrade-Insecure-Requests", "Via",
];
pub const CUSTOM_REQ_HEADERS: [&str; 8] = ["X-Request-ID", "X-Trace", "x-lower", "X-A", "X-Ab", "Traceparent", "X-Forwarded-For", "X-Token"];

pub fn recase(rng: &mut Rng, name: &str) -> (String, char) {
    match rng.below(5) {
        0 | 1 => (name.to_string(), 'e'),
        2 => (name.to_ascii_lowercase(), 'l'),
        3 => (name.to_ascii_uppercase(), 'u'),
        _ => (name.chars().map(|c| if rng.bool() { c.to_ascii_uppercase() } else { c.to_ascii_lowercase() }).collect(), 'r'),
    }
}

fn gen_segment(rng: &mut Rng) -> String {
    match rng.below(8) {
        0 => "users".into(),
        1 => rng.string_over(b"abcdefghijklmnopqrstuvwxyz0123456789", 1, 12),
        2 => "%E3%81%82%E3%81%84".into(),
        3 => "a%20b".into(),
        4 => rng.string_over(b"ABCxyz019-._~!$&'()*+,;=:@", 1, 10),
        5 => "%41%2F%2e".into(),
        6 => "index.html".into(),
        _ => rng.string_over(b"abc", 1, 3),
    }
}
fn gen_query_part(rng: &mut Rng) -> String {
    match rng.below(6) {
        0 => String::new(),
        1 => "%E7%8B%BC".into(),
        2 => rng.string_over(b"abcXYZ019-._~", 1, 10),
        3 => "a%26b%3Dc".into(),
        4 => "1+2".into(),
        _ => rng.string_over(b"abc019", 1, 5),
    }
}
pub fn gen_header_value(rng: &mut Rng) -> String {
    let v = match rng.below(8) {
        0 => String::new(),
        1 => "application/json".to_string(),
        2 => "text/html, application/xhtml+xml;q=0.9, */*;q=0.8".to_string(),
        3 => {
            let n = rng.below(12);
            (0..n).map(|_| { let c = rng.unicode_char(); if c.is_control() { 'x' } else { c } }).collect::<String>()
        }
        4 => rng.string_over(b"abcdefghijklmnopqrstuvwxyzABCDEFGHIJKLMNOPQRSTUVWXYZ0123456789 -_=;,/\"*():.", 1, 60),
        5 => "x".repeat(if small() { 20 } else { rng.range(60, 200) }),
        6 => "a: b".to_string(),
        _ => rng.string_over(b"abc019", 1, 8),
    };
    v.trim_matches(|c: char| c == ' ' || c == '\t' || c == '\u{feff}' || c.is_whitespace()).to_string()
}

/// Miri-sized workloads: cap body and target sizes
pub static SMALL: std::sync::atomic::AtomicBool = std::sync::atomic::AtomicBool::new(false);
fn small() -> bool {
    SMALL.load(std::sync::atomic::Ordering::Relaxed)
}

pub fn gen_body(rng: &mut Rng, class: usize) -> (Vec<u8>, &'static str) {
    let class = if small() && (class == 5 || class == 6) { 7 } else { class };
    match class {
        0 => (vec![], "none"),
        1 => (b"x".to_vec(), "one"),
        2 => (rng.string_over(b"abcdef {}\":,0123456789", 2, 200).into_bytes(), "text"),
        3 => { let n = rng.range(1, 400); let mut b = rng.bytes(n); b[0] = 0; (b, "nul-first") }
        4 => (vec![0u8; rng.range(1, 300)], "all-zero"),
        5 => { let n = rng.range(1, 3000); (rng.bytes(n), "binary") }
        6 => { let n = *rng.pick(&[1023usize, 1024, 1025, 2048, 5000, 20_000]); (rng.bytes(n), "large") }
        _ => { let n = rng.range(1, 50); let mut b = rng.bytes(n); let i = rng.below(n); b[i] = 0; (b, "nul-inside") }
    }
}

/// a request of the supported subset
pub fn gen_request(rng: &mut Rng, allow_body: bool) -> GenReq {
    let method = *rng.pick(&METHODS);
    // target
    let depth = rng.below(5);
    let mut target = String::new();
    for _ in 0..depth {
        target.push('/');
        target.push_str(&gen_segment(rng));
    }
    let mut tshape = format!("d{depth}");
    if target.is_empty() || rng.chance(1, 8) {
        target.push('/');
        tshape.push('s');
    }
    if rng.chance(1, 12) {
        target = format!("/{}", "p".repeat(if small() { 90 } else { rng.range(200, 880) }));
        tshape = "long".into();
    }
    if rng.chance(1, 2) {
        let n = rng.below(4);
        target.push('?');
        let q: Vec<String> = (0..n).map(|_| format!("{}={}", { let k = gen_query_part(rng); if k.is_empty() { "k".into() } else { k } }, if rng.chance(1, 6) { rng.pick(&["YWJjZA==", "a=b", "=", "1=2=3"]).to_string() } else { gen_query_part(rng) })).collect();
        target.push_str(&q.join("&"));
        tshape.push_str(&format!("q{n}"));
    }
    // headers
    let mut headers: Vec<(String, String)> = vec![];
    let mut casing = String::new();
    let nh = *rng.pick_weighted(&[(2, 0usize), (4, 2), (4, 4), (2, 8), (1, 12)]);
    for _ in 0..nh {
        let tok: String;
        let base: &str = if rng.chance(2, 3) {
            let mut n = *rng.pick(&STD_REQ_HEADERS);
            // framing headers are written by the body logic below; Cookie is not repeated (RFC 6265)
            while n == "Content-Length" || n == "Transfer-Encoding" || n == "Connection" || (n == "Cookie" && headers.iter().any(|(k, _)| k.eq_ignore_ascii_case("cookie"))) {
                n = *rng.pick(&STD_REQ_HEADERS);
            }
            n
        } else if rng.chance(1, 3) {
            // any RFC 9110 token is a header name: letters, digits and the fifteen marks ! # $ % & ' * + - . ^ _ ` | ~ (names like X_Api_Key, x.y, a+b occur in the wild)
            tok = loop {
                let t = match rng.below(4) {
                    0 => rng.pick(&["X_Api_Key", "x_trace_id", "_", "X.Y", "a+b", "~t", "x|y", "it's", "100%", "`q`", "^v", "*", "!", "#h", "$1", "&c"]).to_string(),
                    1 => rng.string_over(b"!#$%&'*+-.^_`|~", 1, 4),
                    _ => rng.string_over(b"abcXYZ019!#$%&'*+-.^_`|~", 1, 16),
                };
                if !STD_REQ_HEADERS.iter().any(|h| h.eq_ignore_ascii_case(&t)) { break t }
            };
            &tok
        } else {
            *rng.pick(&CUSTOM_REQ_HEADERS)
        };
        let (name, c) = recase(rng, base);
        casing.push(c);
        headers.push((name, gen_header_value(rng)));
    }
    // repeated header (same name, possibly other casing)
    let mut rep = false;
    if !headers.is_empty() && rng.chance(1, 4) {
        let (k, _) = rng.pick(&headers).clone();
        if !k.eq_ignore_ascii_case("cookie") {
            let (name, c) = recase(rng, &k);
            casing.push(c);
            headers.push((name, gen_header_value(rng)));
            rep = true;
        }
    }
    // body
    let bclass = if allow_body && rng.chance(1, 2) { rng.range(1, 7) } else { 0 };
    let (body, bname) = gen_body(rng, bclass);
    if !body.is_empty() || rng.chance(1, 10) {
        let (name, c) = recase(rng, "Content-Length");
        casing.push(c);
        let at = rng.below(headers.len() + 1);
        let digits = if rng.chance(1, 10) { format!("00{}", body.len()) } else { body.len().to_string() };
        headers.insert(at, (name, digits));
    }
    let mut casing_sorted: Vec<char> = casing.chars().collect();
    casing_sorted.sort();
    casing_sorted.dedup();
    let features = format!("{method}|{tshape}|h{nh}{}|{}|{bname}", if rep { "r" } else { "" }, casing_sorted.iter().collect::<String>());
    GenReq { method, target, headers, body, features }
}

/* ------------------------------ malformed variants ------------------------------ */

pub const MUTATIONS: [&str; 27] = [
    "truncate-in-body",
    "truncate-in-request-line", "truncate-in-headers", "truncate-before-blank-line", "no-second-space", "bad-version", "short-version", "lf-only", "missing-colon-space", "cl-alpha", "cl-negative",
    "cl-plus", "cl-leading-space", "cl-overflow-20-digits", "cl-4294967296", "cl-duplicate-differing", "non-utf8-path", "non-utf8-header-value", "nul-in-request-line", "nul-in-header",
    "unknown-method", "lowercase-method", "garbage", "transfer-encoding-chunked", "empty-header-name", "ctl-in-target", "bare-line-break-in-header-value",
];

/// a malformed variant of `r`; returns (bytes, everything announced was delivered)
pub fn mutate(rng: &mut Rng, r: &GenReq, kind: &str) -> Vec<u8> {
    let valid = r.bytes();
    let head_len = r.head_len();
    let line_end = valid.windows(2).position(|w| w == b"\r\n").unwrap();
    let set_cl = |r: &GenReq, v: &str| -> Vec<u8> {
        let mut q = r.clone();
        q.headers.retain(|(k, _)| !k.eq_ignore_ascii_case("content-length"));
        q.headers.push(("Content-Length".into(), v.to_string()));
        if q.body.is_empty() {
            q.body = b"hello".to_vec();
        }
        q.bytes()
    };
    match kind {
        "truncate-in-body" => {
            // still a request of the subset, but the announced body is not (completely) delivered
            let mut q = r.clone();
            if q.body.is_empty() {
                q.headers.retain(|(k, _)| !k.eq_ignore_ascii_case("content-length"));
                q.headers.push(("Content-Length".into(), "12".into()));
                q.body = b"hello, world".to_vec();
            }
            let b = q.bytes();
            let cut = rng.range(1, q.body.len());
            b[..b.len() - cut].to_vec()
        }
        "truncate-in-request-line" => valid[..rng.range(1, line_end)].to_vec(),
        "truncate-in-headers" => valid[..rng.range(line_end + 1, head_len - 2).min(head_len - 3).max(line_end + 1)].to_vec(),
        "truncate-before-blank-line" => valid[..head_len - 2].to_vec(),
        "no-second-space" => {
            let mut v = format!("{} {}\r\n", r.method, r.target.replace(' ', "")).into_bytes();
            v.extend_from_slice(&valid[line_end + 2..]);
            v
        }
        "bad-version" => String::from_utf8_lossy(&valid).replacen("HTTP/1.1", *rng.pick(&["HTTP/1.0", "HTTP/2.0", "HTTP/1.2", "HTTX/1.1", "http/1.1"]), 1).into_bytes(),
        "short-version" => String::from_utf8_lossy(&valid).replacen("HTTP/1.1", *rng.pick(&["HTTP/1", "HTTP/1.", "HTTP", ""]), 1).into_bytes(),
        "lf-only" => {
            let head = String::from_utf8_lossy(&valid[..head_len]).replace("\r\n", "\n");
            [head.into_bytes(), valid[head_len..].to_vec()].concat()
        }
        "missing-colon-space" => {
            let mut q = r.clone();
            if q.headers.is_empty() {
                q.headers.push(("Host".into(), "t".into()));
            }
            let i = rng.below(q.headers.len());
            let (k, v) = q.headers[i].clone();
            let line = match rng.below(3) { 0 => format!("{k} {v}"), 1 => format!("{k}"), _ => format!("{k};{v}") };
            let mut out = format!("{} {} HTTP/1.1\r\n", q.method, q.target).into_bytes();
            for (j, (k, v)) in q.headers.iter().enumerate() {
                if j == i { out.extend_from_slice(line.as_bytes()) } else { out.extend_from_slice(format!("{k}: {v}").as_bytes()) }
                out.extend_from_slice(b"\r\n");
            }
            out.extend_from_slice(b"\r\n");
            out.extend_from_slice(&q.body);
            out
        }
        "cl-alpha" => set_cl(r, *rng.pick(&["abc", "5a", "a5", "0x10", "five", "5 5", "5,5"])),
        "cl-negative" => set_cl(r, "-1"),
        "cl-plus" => set_cl(r, "+5"),
        "cl-leading-space" => set_cl(r, " 5"),
        "cl-overflow-20-digits" => set_cl(r, *rng.pick(&["99999999999999999999", "18446744073709551616", "18446744073709551621", "100000000000000000000000"])),
        "cl-4294967296" => set_cl(r, *rng.pick(&["4294967296", "4294967297", "99999999999"])),
        "cl-duplicate-differing" => {
            let mut q = r.clone();
            q.headers.retain(|(k, _)| !k.eq_ignore_ascii_case("content-length"));
            q.body = b"hello world".to_vec();
            q.headers.push(("Content-Length".into(), "5".into()));
            q.headers.push(("Content-Length".into(), "11".into()));
            q.bytes()
        }
        "non-utf8-path" => {
            let t = format!("/a{}b", rng.pick(&["%FF", "%C3", "%E3%81", "%80"]));
            let mut q = r.clone();
            q.target = t;
            q.bytes()
        }
        "non-utf8-header-value" => {
            let mut out = valid[..head_len - 2].to_vec();
            out.extend_from_slice(b"X-Bin: a");
            { let alts: [&[u8]; 4] = [b"\xff", b"\xc3", b"\xe3\x81", b"\x80\x80"]; out.extend_from_slice(*rng.pick(&alts)); }
            out.extend_from_slice(b"z\r\n\r\n");
            out.extend_from_slice(&valid[head_len..]);
            out
        }
        "nul-in-request-line" => {
            let mut v = valid.clone();
            let i = rng.range(0, line_end - 1);
            v[i] = 0;
            v
        }
        "ctl-in-target" => {
            // a control character (a line break, most interestingly) inside path or query; the request line then ends early
            let sp = valid.iter().position(|&b| b == b' ').unwrap_or(0);
            let mut v = valid.clone();
            let at = sp + 2 + rng.below((line_end.saturating_sub(sp + 12)).max(1));
            let ins: &[u8] = *rng.pick(&[&b"\r\n"[..], b"\n", b"\r", b"\t", b"\x7f", b"\x01", b"\r\nX-Injected: 1\r\n"]);
            let at = at.min(v.len());
            v.splice(at..at, ins.iter().copied());
            v
        }
        "bare-line-break-in-header-value" => {
            let mut out = valid[..head_len - 2].to_vec();
            out.extend_from_slice(*rng.pick(&[&b"X-Br: a\nb\r\n\r\n"[..], b"X-Br: a\rb\r\n\r\n", b"X-Br: a\nX-Injected: 1\r\n\r\n"]));
            out.extend_from_slice(&valid[head_len..]);
            out
        }
        "nul-in-header" => {
            let mut out = valid[..head_len - 2].to_vec();
            out.extend_from_slice(b"X-Nul: a\0b\r\n\r\n");
            out.extend_from_slice(&valid[head_len..]);
            out
        }
        "unknown-method" => [rng.pick(&["BREW", "GETS", "G", "TRACE", "CONNECT", "PROPFIND"]).as_bytes(), &valid[r.method.len()..]].concat(),
        "lowercase-method" => [r.method.to_ascii_lowercase().as_bytes(), &valid[r.method.len()..]].concat(),
        "garbage" => {
            let n = rng.range(1, 300);
            let mut b = rng.bytes(n);
            if b[0] == 0 { b[0] = 1 }
            b
        }
        "transfer-encoding-chunked" => {
            let mut q = r.clone();
            q.headers.retain(|(k, _)| !k.eq_ignore_ascii_case("content-length"));
            q.headers.push(("Transfer-Encoding".into(), "chunked".into()));
            q.body = b"5\r\nhello\r\n0\r\n\r\n".to_vec();
            q.bytes()
        }
        "empty-header-name" => {
            let mut out = valid[..head_len - 2].to_vec();
            out.extend_from_slice(b": novalue\r\n\r\n");
            out.extend_from_slice(&valid[head_len..]);
            out
        }
        _ => unreachable!("{kind}"),
    }
}
