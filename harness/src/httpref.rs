//! Independent strict parsers used as oracles (no code shared with ohkami / byte_reader).

/* ============================ response parser ============================ */

#[derive(Clone, Debug)]
pub struct ParsedResponse {
    pub status: u16,
    pub reason: String,
    /// header lines in wire order (name as written, value)
    pub headers: Vec<(String, String)>,
    pub body: Vec<u8>,
    /// how the end of the message was determined
    pub framing: Framing,
    /// bytes consumed from the input
    pub consumed: usize,
}

#[derive(Clone, Debug, PartialEq)]
pub enum Framing {
    ContentLength(usize),
    Chunked,
    /// no body by status/method rule (1xx, 204, 304, HEAD)
    NoBodyByRule,
    /// neither Content-Length nor chunked on a response that may carry a body:
    /// the client can only wait for the connection to close
    UntilClose,
}

impl ParsedResponse {
    pub fn get_all(&self, name: &str) -> Vec<&str> {
        self.headers.iter().filter(|(k, _)| k.eq_ignore_ascii_case(name)).map(|(_, v)| v.as_str()).collect()
    }
    pub fn get(&self, name: &str) -> Option<&str> {
        self.get_all(name).into_iter().next()
    }
}

fn find(hay: &[u8], needle: &[u8], from: usize) -> Option<usize> {
    if needle.is_empty() || hay.len() < needle.len() {
        return None;
    }
    (from..=hay.len() - needle.len()).find(|&i| &hay[i..i + needle.len()] == needle)
}

fn is_tchar(b: u8) -> bool {
    b.is_ascii_alphanumeric() || b"!#$%&'*+-.^_`|~".contains(&b)
}

/// Parse one response from the front of `input`. `head_request`: the request was HEAD.
/// Err(reason) if the bytes are not a well-formed HTTP/1.1 response.
pub fn parse_response(input: &[u8], head_request: bool) -> Result<ParsedResponse, String> {
    let head_end = find(input, b"\r\n\r\n", 0).ok_or("no end of header block (CRLFCRLF)")?;
    let head = &input[..head_end];
    let mut lines: Vec<&[u8]> = vec![];
    let mut pos = 0;
    loop {
        match find(head, b"\r\n", pos) {
            Some(i) => {
                lines.push(&head[pos..i]);
                pos = i + 2;
            }
            None => {
                lines.push(&head[pos..]);
                break;
            }
        }
    }
    for l in &lines {
        if l.contains(&b'\r') || l.contains(&b'\n') {
            return Err(format!("bare CR or LF inside a head line: {}", crate::rng::show(l)));
        }
    }
    let sl = lines[0];
    if !sl.starts_with(b"HTTP/1.1 ") {
        return Err(format!("bad status line: {}", crate::rng::show(sl)));
    }
    let rest = &sl[9..];
    if rest.len() < 4 || !rest[..3].iter().all(|b| b.is_ascii_digit()) || rest[3] != b' ' {
        return Err(format!("bad status line: {}", crate::rng::show(sl)));
    }
    let status: u16 = std::str::from_utf8(&rest[..3]).unwrap().parse().unwrap();
    let reason = String::from_utf8_lossy(&rest[4..]).to_string();
    let mut headers = vec![];
    for l in &lines[1..] {
        let c = l.iter().position(|&b| b == b':').ok_or_else(|| format!("header line without colon: {}", crate::rng::show(l)))?;
        let name = &l[..c];
        if name.is_empty() || !name.iter().all(|&b| is_tchar(b)) {
            return Err(format!("bad header name: {}", crate::rng::show(l)));
        }
        let mut v = &l[c + 1..];
        while v.first() == Some(&b' ') || v.first() == Some(&b'\t') {
            v = &v[1..];
        }
        while v.last() == Some(&b' ') || v.last() == Some(&b'\t') {
            v = &v[..v.len() - 1];
        }
        if v.iter().any(|&b| b == 0 || b == b'\r' || b == b'\n') {
            return Err(format!("control byte in header value: {}", crate::rng::show(l)));
        }
        headers.push((String::from_utf8_lossy(name).to_string(), String::from_utf8_lossy(v).to_string()));
    }
    let body_start = head_end + 4;
    let cls: Vec<&str> = headers.iter().filter(|(k, _)| k.eq_ignore_ascii_case("content-length")).map(|(_, v)| v.as_str()).collect();
    let tes: Vec<&str> = headers.iter().filter(|(k, _)| k.eq_ignore_ascii_case("transfer-encoding")).map(|(_, v)| v.as_str()).collect();
    if cls.len() > 1 {
        return Err("several Content-Length lines".into());
    }
    let cl = match cls.first() {
        Some(v) => Some(if !v.is_empty() && v.bytes().all(|b| b.is_ascii_digit()) && v.len() < 18 { v.parse::<usize>().unwrap() } else { return Err(format!("Content-Length is not a number: {v:?}")) }),
        None => None,
    };
    let chunked = tes.iter().any(|v| v.split(',').last().map(|t| t.trim().eq_ignore_ascii_case("chunked")).unwrap_or(false));
    if chunked && cl.is_some() {
        return Err("both Content-Length and Transfer-Encoding: chunked".into());
    }
    let no_body = head_request || (100..200).contains(&status) || status == 204 || status == 304;
    if no_body {
        return Ok(ParsedResponse { status, reason, headers, body: vec![], framing: Framing::NoBodyByRule, consumed: body_start });
    }
    if chunked {
        let (body, used) = dechunk(&input[body_start..])?;
        return Ok(ParsedResponse { status, reason, headers, body, framing: Framing::Chunked, consumed: body_start + used });
    }
    if let Some(n) = cl {
        if input.len() < body_start + n {
            return Err(format!("Content-Length {n} but only {} body bytes follow", input.len() - body_start));
        }
        return Ok(ParsedResponse { status, reason, headers, body: input[body_start..body_start + n].to_vec(), framing: Framing::ContentLength(n), consumed: body_start + n });
    }
    Ok(ParsedResponse { status, reason, headers, body: input[body_start..].to_vec(), framing: Framing::UntilClose, consumed: input.len() })
}

/// strict de-chunker: returns (payload, bytes consumed including the terminating chunk)
pub fn dechunk(input: &[u8]) -> Result<(Vec<u8>, usize), String> {
    let mut pos = 0;
    let mut out = vec![];
    loop {
        let e = find(input, b"\r\n", pos).ok_or("chunk size line not terminated")?;
        let line = &input[pos..e];
        if line.is_empty() || line.len() > 16 || !line.iter().all(|b| b.is_ascii_hexdigit()) {
            return Err(format!("bad chunk size line: {}", crate::rng::show(line)));
        }
        let n = usize::from_str_radix(std::str::from_utf8(line).unwrap(), 16).map_err(|e| e.to_string())?;
        pos = e + 2;
        if n == 0 {
            // no trailers are ever produced: expect the final CRLF
            if input.len() < pos + 2 || &input[pos..pos + 2] != b"\r\n" {
                return Err("terminating chunk not followed by CRLF".into());
            }
            return Ok((out, pos + 2));
        }
        if input.len() < pos + n + 2 {
            return Err(format!("chunk announces {n} bytes but the stream ends early"));
        }
        out.extend_from_slice(&input[pos..pos + n]);
        if &input[pos + n..pos + n + 2] != b"\r\n" {
            return Err("chunk data not followed by CRLF".into());
        }
        pos += n + 2;
    }
}

/* ============================ percent codec (RFC 3986) ============================ */

/// strict decoder: every '%' must be followed by two hex digits; Err otherwise
pub fn percent_decode_strict(s: &[u8]) -> Result<Vec<u8>, String> {
    let mut out = Vec::with_capacity(s.len());
    let mut i = 0;
    while i < s.len() {
        if s[i] == b'%' {
            let h = hexval(*s.get(i + 1).ok_or("truncated escape")?).ok_or("bad hex")?;
            let l = hexval(*s.get(i + 2).ok_or("truncated escape")?).ok_or("bad hex")?;
            out.push(h * 16 + l);
            i += 3;
        } else {
            out.push(s[i]);
            i += 1;
        }
    }
    Ok(out)
}
pub fn hexval(b: u8) -> Option<u8> {
    match b {
        b'0'..=b'9' => Some(b - b'0'),
        b'a'..=b'f' => Some(b - b'a' + 10),
        b'A'..=b'F' => Some(b - b'A' + 10),
        _ => None,
    }
}
/// encode every byte outside the unreserved set
pub fn percent_encode_all(s: &[u8]) -> String {
    let mut o = String::new();
    for &b in s {
        if b.is_ascii_alphanumeric() || b"-._~".contains(&b) {
            o.push(b as char);
        } else {
            o.push_str(&format!("%{:02X}", b));
        }
    }
    o
}

/* ============================ base64 ============================ */

const B64: &[u8; 64] = b"ABCDEFGHIJKLMNOPQRSTUVWXYZabcdefghijklmnopqrstuvwxyz0123456789+/";
const B64URL: &[u8; 64] = b"ABCDEFGHIJKLMNOPQRSTUVWXYZabcdefghijklmnopqrstuvwxyz0123456789-_";

pub fn b64_encode(data: &[u8], url: bool, pad: bool) -> String {
    let t = if url { B64URL } else { B64 };
    let mut o = String::new();
    for c in data.chunks(3) {
        let n = (c[0] as u32) << 16 | (*c.get(1).unwrap_or(&0) as u32) << 8 | *c.get(2).unwrap_or(&0) as u32;
        o.push(t[(n >> 18) as usize & 63] as char);
        o.push(t[(n >> 12) as usize & 63] as char);
        if c.len() > 1 {
            o.push(t[(n >> 6) as usize & 63] as char);
        } else if pad {
            o.push('=');
        }
        if c.len() > 2 {
            o.push(t[n as usize & 63] as char);
        } else if pad {
            o.push('=');
        }
    }
    o
}

/// canonical decoding only (RFC 4648 §3.5: non-zero trailing bits rejected); `pad`: padding required (true) or forbidden (false)
pub fn b64_decode(s: &[u8], url: bool, pad: bool) -> Option<Vec<u8>> {
    let t = if url { B64URL } else { B64 };
    let mut body = s;
    if pad {
        if s.len() % 4 != 0 {
            return None;
        }
        let mut np = 0;
        while np < 2 && body.last() == Some(&b'=') {
            body = &body[..body.len() - 1];
            np += 1;
        }
        if (body.len() + np) % 4 != 0 || (np > 0 && body.len() % 4 + np != 4) {
            return None;
        }
    }
    if body.len() % 4 == 1 {
        return None;
    }
    let mut out = vec![];
    let mut acc: u32 = 0;
    let mut bits = 0;
    for &b in body {
        let v = t.iter().position(|&x| x == b)? as u32;
        acc = (acc << 6) | v;
        bits += 6;
        if bits >= 8 {
            bits -= 8;
            out.push((acc >> bits) as u8);
            acc &= (1 << bits) - 1;
        }
    }
    if acc != 0 {
        return None; // non-canonical trailing bits
    }
    Some(out)
}
