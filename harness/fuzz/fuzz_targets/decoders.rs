#![no_main]
// coverage-guided inputs for the C08 monitors (see harness/src/fuzz.rs): an input for which a monitor records a violation aborts the
// process, so that libFuzzer keeps it as an artifact; `vh fuzzreplay` then reports it with its proper signature
use libfuzzer_sys::fuzz_target;

fuzz_target!(|data: &[u8]| {
    if vh::fuzz::decoders(data) {
        std::process::abort();
    }
});
