#![no_main]
// coverage-guided inputs for the C02 monitors (reference request parser vs Request::read + accessors)
use libfuzzer_sys::fuzz_target;

fuzz_target!(|data: &[u8]| {
    if vh::fuzz::request(data) {
        std::process::abort();
    }
});
