#![no_main]
// coverage-guided *decisions* for the ordinary engines: the input is a decision tape for the engine's generator (harness/src/rng.rs);
// the engine named by VH_FUZZ_ENGINE runs one case on it and its own oracle judges (harness/src/fuzz.rs)
use libfuzzer_sys::fuzz_target;

fuzz_target!(|data: &[u8]| {
    if vh::fuzz::cases(data) {
        std::process::abort();
    }
});
