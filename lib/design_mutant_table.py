#!/usr/bin/env python3
"""Rewrites the seeded-change table in DESIGN.md from seeded/*/meta.json."""
import os, json, re
ROOT = os.path.dirname(os.path.dirname(os.path.abspath(__file__)))
rows = ["| change | what it does | existing tests with it | check verdict (quick) | signatures |", "|---|---|---|---|---|"]
for d in sorted(os.listdir(os.path.join(ROOT, "seeded"))):
    mp = os.path.join(ROOT, "seeded", d, "meta.json")
    if not os.path.exists(mp):
        continue
    m = json.load(open(mp))
    title = re.sub(r"^(C\d\d\s*/\s*)?m\d\s*[—-]\s*", "", m.get("title", "")).replace("|", "/")[:110]
    tests = m.get("existing_tests_with_change", {}).get("summary", "").replace("Summary", "").strip()
    tests = re.sub(r"\[\s*[\d.]+s\]\s*", "", tests)
    res = m.get("result", "")
    if m.get("note"):
        res += " – " + m["note"]
    sigs = ", ".join("`%s`" % x for x in m.get("check", {}).get("signatures", [])[:3])
    rows.append("| %s%s | %s | %s | %s | %s |" % (d, " (re-based)" if m.get("rebased") else "", title, tests, res.replace("|", "/"), sigs))
p = os.path.join(ROOT, "DESIGN.md")
s = open(p).read()
a = s.index("<!-- MUTANT-TABLE-BEGIN -->") + len("<!-- MUTANT-TABLE-BEGIN -->")
b = s.index("<!-- MUTANT-TABLE-END -->")
s = s[:a] + "\n" + "\n".join(rows) + "\n" + s[b:]
open(p, "w").write(s)
print(len(rows) - 2, "rows")
