#!/usr/bin/env python3
"""Regenerates /verif/MANIFEST.json from lib/plans.py (PLANS + META)."""
import json, os, sys, subprocess
ROOT = os.path.dirname(os.path.dirname(os.path.abspath(__file__)))
sys.path.insert(0, os.path.join(ROOT, "lib"))
import plans

props = [json.loads(l) for l in open(os.path.join(ROOT, "properties.jsonl"))]
hooks = subprocess.run(["git", "-C", "/repo", "log", "--format=%H %s"], capture_output=True, text=True).stdout.splitlines()
hook_commits = [l.split()[0] for l in hooks if "verif hook" in l]

checks, na = [], []
for p in props:
    pid = p["id"]
    if pid in plans.PLANS and pid in plans.META:
        m = plans.META[pid]
        checks.append({
            "property_id": pid,
            "quick_cmd": f"./check {pid} --tier quick",
            "thorough_cmd": f"./check {pid} --tier thorough",
            "evidence_file": f"/verif/evidence/{pid}.json",
            "replay_cmd_template": f"./check {pid} --replay {{path}}",
            "engine": m["engine"],
            "level_claimed": {"category": plans.PLANS[pid].get("level", "exploration"), "text": m["level_text"], "design_ref": m["design_ref"]},
            "level_note": m["level_note"],
            "technique": m["technique"],
        })
    else:
        na.append({"property_id": pid, "reason": plans.NOT_CLAIMED.get(pid, "check not built yet (work in progress); no claim is made for this property")})

man = {
    "version": 1,
    "setup_cmd": "./setup",
    "hooks": {
        "guard": "ohkami_verif",
        "enable": "RUSTFLAGS=\"--cfg ohkami_verif\" (plus --cfg ohkami_verif_nocap in the asan/miri variants, which drops the H3 capacity assertion so that the sanitizer sees the real overrun); set by ./check for every harness build; the harness depends on /repo/ohkami* by path",
        "baseline_off_cmd": "cd /repo && cargo nextest run --workspace --no-fail-fast --tool-config-file pb:/w/lib/nextest.toml --profile pb --test-threads 8 --offline",
        "source_commits": list(reversed(hook_commits)),
        "add_only": True,
    },
    "engines": [
        {"name": "vh", "path": "/verif/harness", "serves_properties": [c["property_id"] for c in checks],
         "kind_free_text": "Rust multi-call worker binary (one sub-command per property engine) linking the real ohkami crates built from /repo with hooks on; built as rel/dbg/asan/miri/tsan variants"},
        {"name": "check", "path": "/verif/check", "serves_properties": [c["property_id"] for c in checks],
         "kind_free_text": "Python driver: builds variants, shards workers, attributes worker deaths and sanitizer reports to cases, applies known_findings.json, writes evidence"},
        {"name": "c16gen", "path": "/verif/gen/c16gen.py", "serves_properties": ["C16"],
         "kind_free_text": "seeded Python generator of Rust programs (type definitions deriving serde's traits and openapi::Schema, instances, requiredness probes), compiled against /repo by ./check"},
        {"name": "judges", "path": "/verif/oracle", "serves_properties": ["C12", "C15", "C16"],
         "kind_free_text": "independent Python judges run by ./check over what the workers / generated programs observed: jwt_judge.py (hmac/hashlib), openapi_judge.py and schema_judge.py (jsonschema Draft 2020-12, tooling venv)"},
    ],
    "checks": checks,
    "not_applicable": na,
    "notes": "Technique family: runtime monitoring and sanitizers. Verdicts are three-valued (exit 0 held, 1 violation, 2 inconclusive). See DESIGN.md.",
}
with open(os.path.join(ROOT, "MANIFEST.json"), "w") as f:
    json.dump(man, f, indent=1)
    f.write("\n")
print("checks:", [c["property_id"] for c in checks], "not claimed:", [n["property_id"] for n in na])
