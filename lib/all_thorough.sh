#!/bin/sh
# runs every thorough check in sequence; log per property under scratch/thorough/
cd /verif; mkdir -p scratch/thorough
for id in ${@:-C01 C02 C03 C04 C05 C06 C07 C08 C09 C10 C11 C12 C13 C14 C15 C16 C17 C18 C19 C20}; do
  t0=$(date +%s)
  ./check $id --tier thorough > scratch/thorough/$id.out 2> scratch/thorough/$id.err; rc=$?
  echo "$id rc=$rc $(( $(date +%s) - t0 ))s $(grep -E '^(HELD|VIOLATION|INCONCLUSIVE)' scratch/thorough/$id.out | head -3 | tr '\n' ' ')"
done
