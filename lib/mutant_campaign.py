#!/usr/bin/env python3
"""Runs every seeded change in /verif/seeded against its property's check and (re)writes seeded/<id>/meta.json.
For each: patch applies to /repo HEAD? the pinned test suite still passes with it? `./check <PID> --tier <tier>` verdict and signatures.
The patch is undone straight afterwards; /repo must be clean before starting.   usage: lib/mutant_campaign.py [tier] [ids...]"""
import os, sys, json, re, subprocess, time
ROOT = os.path.dirname(os.path.dirname(os.path.abspath(__file__)))
BASELINE = json.load(open("/root/.vp/BASELINE.json"))


def sh(cmd, **kw):
    return subprocess.run(cmd, shell=True, capture_output=True, text=True, **kw)


def section(text, title):
    m = re.search(r"^## " + re.escape(title) + r".*?\n(.*?)(?=^## |\Z)", text, re.S | re.M)
    return m.group(1).strip() if m else ""


def main():
    tier = sys.argv[1] if len(sys.argv) > 1 else "quick"
    only = sys.argv[2:]
    if sh("git -C /repo diff --quiet").returncode != 0:
        print("/repo is dirty, refusing"); return 3
    base_cmd = "cd /repo && cargo nextest run --workspace --no-fail-fast --tool-config-file pb:/w/lib/nextest.toml --profile pb --test-threads 8 --offline"
    head = sh("git -C /repo rev-parse --short HEAD").stdout.strip()
    for d in sorted(os.listdir(os.path.join(ROOT, "seeded"))):
        if only and d not in only:
            continue
        sd = os.path.join(ROOT, "seeded", d)
        pid = d.split("-")[0]
        notes = open(os.path.join(sd, "NOTES.md")).read() if os.path.exists(os.path.join(sd, "NOTES.md")) else ""
        title = (notes.splitlines() or [""])[0].lstrip("# ").strip()
        meta = {"id": d, "property": pid, "title": title, "needs_to_manifest": section(notes, "What is needed for it to manifest")[:1500],
                "files": sorted(os.listdir(sd)), "repo_head": head, "tier": tier}
        meta["rebased"] = os.path.exists(os.path.join(sd, "patch.original.diff"))
        ap = sh(f"git -C /repo apply --check {sd}/patch.diff")
        if ap.returncode != 0:
            meta["applies"] = False
            meta["result"] = "patch no longer applies to /repo HEAD: " + ap.stderr.strip()[:200]
        else:
            meta["applies"] = True
            sh(f"git -C /repo apply {sd}/patch.diff")
            try:
                t0 = time.time()
                bt = sh(base_cmd, timeout=1800)
                tail = (bt.stdout + bt.stderr).strip().splitlines()
                summ = [l for l in tail if "Summary" in l or "tests run" in l]
                meta["existing_tests_with_change"] = {"command": base_cmd, "exit": bt.returncode, "summary": (summ[-1].strip() if summ else (tail[-1] if tail else ""))}
                t0 = time.time()
                ck = sh(f"cd {ROOT} && ./check {pid} --tier {tier}", timeout=7200)
                lines = [l for l in ck.stdout.splitlines() if re.match(r"^(VIOLATION|KNOWN-FINDING|INCONCLUSIVE|HELD)", l)]
                sigs = re.findall(r"violation sig=([^:]+(?::[^ ]+)?): ", ck.stderr)
                meta["check"] = {"command": f"./check {pid} --tier {tier}", "exit": ck.returncode, "wall_s": round(time.time() - t0, 1),
                                 "violation_lines": len([l for l in lines if l.startswith("VIOLATION")]), "signatures": sorted(set(sigs))[:12],
                                 "first_violation": next((l for l in ck.stderr.splitlines() if "violation sig=" in l), "")[:400]}
                meta["caught"] = ck.returncode == 1 and any(l.startswith("VIOLATION") for l in lines)
                meta["result"] = "caught" if meta["caught"] else ("not caught (check exit %d)" % ck.returncode)
            finally:
                sh("git -C /repo checkout -- .")
                sh(f"git -C {ROOT} checkout -- evidence/{pid}.json")
        old = {}
        mp = os.path.join(sd, "meta.json")
        if os.path.exists(mp):
            try:
                old = json.load(open(mp))
            except ValueError:
                old = {}
        for k in ("note", "confirmed_by_me"):
            if k in old:
                meta[k] = old[k]
        json.dump(meta, open(mp, "w"), indent=1, ensure_ascii=False)
        print(d, meta["result"], meta.get("check", {}).get("signatures", [])[:3], meta.get("existing_tests_with_change", {}).get("summary", ""), flush=True)
    return 0


if __name__ == "__main__":
    sys.exit(main())
