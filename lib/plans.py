"""Per-property run plans for ./check.  A run = one engine under one build variant, sharded over worker processes."""

EXTERNAL = {}
POST = {}
import os, sys, json, glob, subprocess
from concurrent.futures import ThreadPoolExecutor
VROOT = os.path.dirname(os.path.dirname(os.path.abspath(__file__)))


def _empty():
    return {"evaluations": 0, "hashes": set(), "counters": {}, "samples": [], "viols": [], "viol_per_sig": {}, "incon": []}


def post_c12(run, scratch, seed):
    """python judge over the case dumps of the c12 workers"""
    out = _empty()
    files = sorted(glob.glob(os.path.join(scratch, "c12-cases-*.jsonl")))
    if not files:
        out["incon"].append("c12: no case dumps found for the python judge")
        return out
    chunks = [files[i::16] for i in range(16) if files[i::16]]

    def one(chunk):
        p = subprocess.run([sys.executable, os.path.join(VROOT, "oracle", "jwt_judge.py")] + chunk, capture_output=True, text=True)
        if p.returncode != 0:
            return {"error": p.stderr[-500:]}
        return json.loads(p.stdout)
    with ThreadPoolExecutor(max_workers=16) as ex:
        results = list(ex.map(one, chunks))
    judged = 0
    for r in results:
        if "error" in r:
            out["incon"].append("python judge failed: " + r["error"])
            continue
        judged += r["evaluations"]
        for k, v in r["counters"].items():
            out["counters"][k] = out["counters"].get(k, 0) + v
        for k, v in r["viol_per_sig"].items():
            out["viol_per_sig"][k] = out["viol_per_sig"].get(k, 0) + v
        for v in r["violations"]:
            v = dict(v)
            v["run"] = {"engine": run["engine"], "variant": run["variant"], "features": run.get("features", []), "flags": {k: x for k, x in run.get("flags", {}).items() if k != "dump"}, "budget": run["budget"],
                        "case": v["case"].get("case_index"), "shard": 0, "nshards": 1, "seed": seed}
            out["viols"].append(v)
    out["counters"]["cases_judged_by_python"] = judged
    for f in files:
        os.remove(f)
    return out


POST["c12"] = post_c12


def _post_with_judge(prefix, script, python, counter_name):
    def post(run, scratch, seed):
        out = _empty()
        files = sorted(glob.glob(os.path.join(scratch, f"{prefix}-cases-*.jsonl")))
        if not files:
            out["incon"].append(f"{prefix}: no case dumps found for the python judge")
            return out
        chunks = [files[i::16] for i in range(16) if files[i::16]]

        def one(chunk):
            p = subprocess.run([python, os.path.join(VROOT, "oracle", script)] + chunk, capture_output=True, text=True)
            if p.returncode != 0:
                return {"error": p.stderr[-800:]}
            return json.loads(p.stdout)
        with ThreadPoolExecutor(max_workers=16) as ex:
            results = list(ex.map(one, chunks))
        judged = 0
        for r in results:
            if "error" in r:
                out["incon"].append("python judge failed: " + r["error"])
                continue
            judged += r["evaluations"]
            for k, v in r["counters"].items():
                out["counters"][k] = out["counters"].get(k, 0) + v
            for k, v in r["viol_per_sig"].items():
                out["viol_per_sig"][k] = out["viol_per_sig"].get(k, 0) + v
            for v in r["violations"]:
                v = dict(v)
                v["run"] = {"engine": run["engine"], "variant": run["variant"], "features": run.get("features", []), "flags": {k: x for k, x in run.get("flags", {}).items() if k != "dump"},
                            "budget": run["budget"], "case": v["case"].get("case_index"), "shard": 0, "nshards": 1, "seed": seed}
                out["viols"].append(v)
        out["counters"][counter_name] = judged
        for f in files:
            os.remove(f)
        return out
    return post


import shutil as _sh
PYVT = _sh.which("python3-vt") or "/opt/veriftools/pyvenv/bin/python3"
POST["c15"] = _post_with_judge("c15", "openapi_judge.py", PYVT, "documents_judged_by_python")


def ext_c16(run, binary, seed, scratch, deadline):
    """C16: generate Rust programs, compile them twice (serde only / with derive(Schema)) against /repo, run them, judge in python.
    budget = number of generated types; shards = number of crates compiled in parallel; start = first type id (replay)."""
    import shutil, time
    out = _empty()
    first = run.get("start", 0)
    n = run["budget"] - first
    batches = max(1, min(run.get("shards", 8), n))
    ws = os.path.join(scratch, "c16ws")
    shutil.rmtree(ws, ignore_errors=True)
    p = subprocess.run([sys.executable, os.path.join(VROOT, "gen", "c16gen.py"), "--seed", str(seed), "--n", str(n), "--first", str(first), "--batches", str(batches), "--out", ws],
                       capture_output=True, text=True)
    if p.returncode != 0:
        out["incon"].append("c16 generator failed: " + p.stderr[-400:]); return out
    shutil.copy("/repo/Cargo.lock", os.path.join(ws, "Cargo.lock"))
    meta = json.load(open(os.path.join(ws, "meta.json")))
    tdir = os.path.join(VROOT, "harness", "target-c16")
    env = dict(os.environ, CARGO_NET_OFFLINE="true", CARGO_TARGET_DIR=tdir)
    env.pop("RUSTFLAGS", None)

    def cargo(features):
        """returns (ok, {type id: first error message}, other errors)"""
        cmd = ["cargo", "build", "--offline", "--message-format=json", "-q"] + (["--features", "schema"] if features else [])
        try:
            p = subprocess.run(cmd, cwd=ws, env=env, capture_output=True, text=True, timeout=max(60, deadline - time.time()))
        except subprocess.TimeoutExpired:
            return None, {}, ["cargo build timed out"]
        per, other = {}, []
        for line in p.stdout.splitlines():
            if not line.startswith("{"):
                continue
            try:
                m = json.loads(line)
            except ValueError:
                continue
            if m.get("reason") != "compiler-message" or m["message"].get("level") != "error":
                continue
            msg = m["message"]
            text = msg.get("message", "")
            for c in msg.get("children", []):
                if c.get("message", "").startswith("message:"):
                    text += " | " + c["message"]
            hit = None
            for sp in msg.get("spans", []):
                mm = __import__("re").search(r"/t(\d+)\.rs$", sp.get("file_name", ""))
                if mm:
                    hit = mm.group(1); break
            if hit is None:
                if "aborting due to" not in text and "could not compile" not in text:
                    other.append(text[:300])
            else:
                per.setdefault(hit, text)
        return p.returncode == 0, per, other

    def exclude(ids):
        per_batch = {}
        for i, m in meta.items():
            if i not in ids:
                per_batch.setdefault(m["batch"], []).append(int(i))
        sys.path.insert(0, os.path.join(VROOT, "gen"))
        import c16gen
        for b in range(batches):
            c16gen.write_main(os.path.join(ws, f"b{b}"), sorted(per_batch.get(b, [])))

    # pass 1: what serde itself accepts (anything it refuses is the generator's fault, not the derive's)
    dropped = {}
    for _ in range(4):
        ok, per, other = cargo(False)
        if ok is None or (not ok and not per):
            out["incon"].append("c16 pass 1 (serde only) did not build: " + "; ".join(other[:3])); return out
        if ok:
            break
        dropped.update(per); exclude(set(dropped))
    else:
        out["incon"].append("c16 pass 1 keeps failing"); return out
    # pass 2: with derive(Schema); a type refused here is a type serde accepts and the derive does not
    rejected = {}
    for _ in range(6):
        ok, per, other = cargo(True)
        if ok is None or (not ok and not per):
            out["incon"].append("c16 pass 2 (with derive(Schema)) did not build, and no generated type is to blame: " + "; ".join(other[:3])); return out
        if ok:
            break
        rejected.update(per); exclude(set(dropped) | set(rejected))
    else:
        out["incon"].append("c16 pass 2 keeps failing"); return out
    with open(os.path.join(ws, "out.jsonl"), "w") as f:
        for b in range(batches):
            try:
                p = subprocess.run([os.path.join(tdir, "debug", f"c16b{b}")], capture_output=True, text=True, timeout=600)
            except subprocess.TimeoutExpired:
                out["incon"].append(f"c16 batch {b} timed out"); continue
            if p.returncode != 0:
                # a generated program died: attribute to the type after the last one that printed
                out["incon"].append(f"c16 batch {b} exited {p.returncode}: {p.stderr[-300:]}")
            f.write(p.stdout)
    json.dump(rejected, open(os.path.join(ws, "rejected.json"), "w"))
    p = subprocess.run([PYVT, os.path.join(VROOT, "oracle", "schema_judge.py"), ws], capture_output=True, text=True)
    if p.returncode != 0:
        out["incon"].append("c16 python judge failed: " + p.stderr[-600:]); return out
    r = json.loads(p.stdout)
    out["evaluations"] = r["evaluations"]
    out["hashes"] = set(r["hashes"])
    out["counters"] = dict(r["counters"])
    out["counters"]["generated_types"] = n
    out["counters"]["types_refused_by_serde_itself_(dropped)"] = len(dropped)
    out["counters"]["types_refused_by_derive_schema"] = len(rejected)
    out["samples"] = r["samples"]
    out["viol_per_sig"] = dict(r["viol_per_sig"])
    for v in r["violations"]:
        v = dict(v)
        cid = v["case"]["case_index"]
        try:
            v["case"]["source"] = open(os.path.join(ws, f"b{meta[str(cid)]['batch']}", "src", f"t{cid}.rs")).read()[:6000]
        except OSError:
            pass
        v["run"] = {"engine": run["engine"], "variant": run["variant"], "features": run.get("features", []), "flags": run.get("flags", {}), "external": "c16",
                    "budget": run["budget"], "case": cid, "shard": 0, "nshards": 1, "seed": seed}
        out["viols"].append(v)
    return out


EXTERNAL["c16"] = ext_c16


def ext_fuzz(run, binary, seed, scratch, deadline):
    """coverage-guided workload generation (libFuzzer, harness/fuzz). budget = seconds of fuzzing; flags: target (decoders|request), max_len.
    The fuzzer proposes inputs; an input for which a monitor records a violation aborts the fuzz job and is kept as an artifact. Afterwards the
    artifacts and the whole corpus are run again through the ordinary worker (`vh fuzzreplay`, this run's variant) so that violations carry their
    usual signatures."""
    import shutil, time, re
    out = _empty()
    target = run.get("flags", {}).get("target", "decoders")
    # target "cases": decision-tape fuzzing of an ordinary engine; flags["engine"] = "<engine>[,flag=value...]"
    spec = run.get("flags", {}).get("engine")
    rtarget = f"case:{spec}" if target == "cases" else target
    label = (spec or target).replace(",", "-").replace("=", "-")
    fdir = os.path.join(VROOT, "harness", "fuzz")
    tdir = os.path.join(VROOT, "harness", "target-fuzz")
    work = os.path.join(scratch, f"fuzz-{label}")
    corpus, art = os.path.join(work, "corpus"), os.path.join(work, "art")
    shutil.rmtree(work, ignore_errors=True)
    os.makedirs(art)
    if run.get("start", 0) or run.get("flags", {}).get("dir"):
        # replay of a recorded violation: only the recorded input
        corpus = None
    elif target == "cases":
        # no natural seed inputs for a decision tape: 16 tapes from the seed, half of them biased to small values
        import random
        rnd = random.Random(seed)
        os.makedirs(corpus)
        for i in range(16):
            with open(os.path.join(corpus, f"tape{i}"), "wb") as f:
                f.write(bytes(rnd.randrange(256) if rnd.random() < 0.5 else rnd.randrange(8) for _ in range(256)))
    else:
        shutil.copytree(os.path.join(fdir, "seeds", target), corpus)
    env = dict(os.environ, CARGO_NET_OFFLINE="true", RUSTFLAGS="--cfg ohkami_verif --cfg ohkami_verif_nocap", ASAN_OPTIONS="detect_leaks=0")
    if spec:
        env["VH_FUZZ_ENGINE"] = spec
    stats = {}
    if corpus:
        p = subprocess.run(["cargo", "+nightly", "fuzz", "build", "--target-dir", tdir, target], cwd=fdir, env=env, capture_output=True, text=True)
        if p.returncode != 0:
            out["incon"].append("fuzz target did not build: " + p.stderr[-600:]); return out
        secs = int(min(run["budget"], max(10, deadline - time.time() - 120)))
        cmd = ["cargo", "+nightly", "fuzz", "run", "--target-dir", tdir, target, corpus, "--", f"-fork={NCPU_FUZZ}", "-ignore_crashes=1", "-ignore_timeouts=1", "-ignore_ooms=1",
               f"-max_total_time={secs}", "-timeout=10", "-rss_limit_mb=4096", "-detect_leaks=0", f"-max_len={run.get('flags', {}).get('max_len', 600)}", f"-seed={seed}", f"-artifact_prefix={art}/"]
        try:
            p = subprocess.run(cmd, cwd=fdir, env=env, capture_output=True, text=True, timeout=secs + 300)
        except subprocess.TimeoutExpired:
            out["incon"].append("libFuzzer did not stop in time"); return out
        last = None
        for line in p.stderr.splitlines():
            m = re.match(r"#(\d+): cov: (\d+) ft: (\d+) corp: (\d+) exec/s:? (\d+) oom/timeout/crash: (\d+)/(\d+)/(\d+)", line)
            if m:
                last = m
        if not last:
            out["incon"].append("no libFuzzer statistics line seen: " + p.stderr[-400:]); return out
        stats = {"fuzz_executions": int(last.group(1)), "max_fuzz_coverage_edges": int(last.group(2)), "max_fuzz_features": int(last.group(3)), "max_fuzz_corpus_entries": int(last.group(4)),
                 "fuzz_ooms": int(last.group(6)), "fuzz_timeouts": int(last.group(7)), "fuzz_jobs_ended_by_a_monitor_or_crash": int(last.group(8))}
    # replay through the ordinary worker: artifacts first, then the corpus
    dirs = [run["flags"]["dir"]] if not corpus else [art, corpus]
    keep = os.path.join(VROOT, "replay", run.get("sigprefix", "fuzz"), f"fuzz-{label}")
    for d in dirs:
        rpt = os.path.join(work, "replay.jsonl")
        p = subprocess.run([binary, "fuzzreplay", "--target", rtarget, "--dir", d, "--out", rpt, "--seed", str(seed)], cwd=os.path.join(VROOT, "harness"),
                           env=dict(os.environ, VH_SCRATCH=scratch), capture_output=True, text=True, timeout=1800)
        recs = []
        try:
            recs = [json.loads(l) for l in open(rpt) if l.strip()]
        except OSError:
            pass
        summ = [r for r in recs if r.get("t") == "summary"]
        if p.returncode != 0 or not summ:
            begun = [r for r in recs if r.get("t") == "begin"]
            ended = {r["case"] for r in recs if r.get("t") == "end"}
            dying = [r for r in begun if r["case"] not in ended]
            f = dying[-1]["detail"]["file"] if dying else "?"
            sig = f"{run.get('sigprefix', 'fuzz')}/died-on-fuzz-input:rc{p.returncode}"
            out["viols"].append({"sig": sig, "what": f"worker died (rc {p.returncode}) replaying {f}: {p.stderr[-300:]}", "case": {"file": f}, "run": {"engine": "fuzz", "variant": run["variant"], "external": "fuzz", "budget": run["budget"], "flags": dict({"target": target, "dir": d}, **({"engine": spec} if spec else {})), "seed": seed}})
            out["viol_per_sig"][sig] = out["viol_per_sig"].get(sig, 0) + 1
            continue
        r = summ[0]
        out["counters"]["inputs_replayed_through_the_worker"] = out["counters"].get("inputs_replayed_through_the_worker", 0) + r["counters"].get("inputs_replayed", 0)
        for k, v in r["counters"].items():
            if k != "inputs_replayed":
                out["counters"]["replay:" + k] = out["counters"].get("replay:" + k, 0) + v
        out["hashes"].update(r["distinct_hashes"])
        out["samples"] += r["samples"][:2]
        for k, v in r["viol_per_sig"].items():
            out["viol_per_sig"][k] = out["viol_per_sig"].get(k, 0) + v
        for v in (x for x in recs if x.get("t") == "viol"):
            v = dict(v)
            # keep the input where a replay can find it
            os.makedirs(keep, exist_ok=True)
            name = "in-" + __import__("hashlib").sha1(json.dumps(v["case"], sort_keys=True).encode()).hexdigest()[:12]
            one = os.path.join(keep, name)
            os.makedirs(one, exist_ok=True)
            hx = v["case"].get("input_hex") if target != "cases" else None
            if target == "cases":
                # the violating tape: the worker adds the file a case was read from to every violation record
                src = v["case"].get("input_file")
                if src and os.path.exists(src):
                    shutil.copy(src, os.path.join(one, "tape"))
            if hx is not None:
                sel = {"urlencoded": b"\x00", "cookie": b"\x01", "multipart": b"\x02", "other": b"\x03"}.get(v["case"].get("decoder"), b"") if target == "decoders" else b""
                open(os.path.join(one, "input"), "wb").write(sel + bytes.fromhex(hx))
            v["run"] = {"engine": "fuzz", "variant": run["variant"], "external": "fuzz", "budget": run["budget"], "flags": dict({"target": target, "dir": one}, **({"engine": spec} if spec else {})), "seed": seed}
            out["viols"].append(v)
    out["evaluations"] = stats.get("fuzz_executions", 0) + out["counters"].get("inputs_replayed_through_the_worker", 0)
    out["counters"].update(stats)
    return out


NCPU_FUZZ = 16
EXTERNAL["fuzz"] = ext_fuzz


def R(engine, variant, budget, shards=16, flags=None, features=None, **kw):
    d = dict(engine=engine, variant=variant, budget=budget, shards=shards, flags=flags or {}, features=features or [])
    d.update(kw)
    return d


PLANS = {}

PLANS["C20"] = dict(
    level="exploration",
    exhaustive={"quick": True, "thorough": True},
    rule=("imf_fixdate: every day number 0..2932896 (1970-01-01..9999-12-31) at one seed-chosen second of day, every second of day on 24 special days "
          "(leap days, century non-leap, 400-year leap, year ends), random full timestamps and both bounds, each compared with an independent civil-from-days "
          "reference; itoa/hexized: every n < 10^6, 10^k and 16^k +-1, usize::MAX, random widths, against std formatting. distinct_nontrivial = distinct "
          "(year mod 400, month, weekday) triples observed."),
    quick=[R("c20", "rel", 200_000), R("c20", "miri", 1, shards=4, flags={"small": 8})],
    thorough=[R("c20", "rel", 2_000_000), R("c20", "dbg", 500_000), R("c20", "asan", 500_000), R("c20", "native", 500_000), R("c20", "miri", 1, shards=16, flags={"small": 1})],
    floors={"quick": {"evaluations": 6_000_000, "days_enumerated_in_shard": 2_932_897, "distinct": 30_000},
            "thorough": {"evaluations": 12_000_000, "days_enumerated_in_shard": 2_932_897 * 3, "distinct": 30_000}},
    assumptions=["reference: Hinnant civil_from_days written from the paper + weekday=(days+4) mod 7; std formatting for numbers",
                 "64-bit usize", "thorough tier also runs a build with -C target-cpu=native (code behind cfg(target_feature) is compiled in); other target features are not built", "Miri runs a strided subset (every 997th day, every 1201st second, n<3000)"],
)

# ---------------------------------------------------------------------------------------------
# manifest metadata per claimed property
META = {}
NOT_CLAIMED = {}

META["C20"] = dict(
    engine="vh c20",
    technique="runtime monitoring: exhaustive enumeration of inputs to the real formatters against an independent reference; Miri on a strided subset; ASan/debug-assert builds and a -C target-cpu=native build in thorough",
    level_text=("Every day of the supported range and every n < 10^6 is executed through the real imf_fixdate/itoa/hexized and compared with an independent "
                "reference, so a wrong table entry or digit is observed, not sampled; seconds-of-day are exhaustive on 24 special days and random elsewhere."),
    level_note="Trusts the reference (Hinnant civil_from_days, std formatting). Full 64-bit range of itoa/hexized is sampled, not enumerated.",
    design_ref="DESIGN.md §5 C20",
)

PLANS["C01"] = dict(
    level="exploration",
    rule=("generated applications (1-7 items per application, routes of depth 0-4 over a collision-rich name alphabet, <=2 params per full route, method subsets, 0-2 levels of "
          "mounts with static/param prefixes, typed and untyped handlers) each built in 4 registration orders + through the real tuple API, each driven with ~100 generated requests "
          "(every route instantiated with hostile param values under all 7 methods, near-misses: segment extended/truncated/case-changed, extra/missing/empty segment, trailing slashes, "
          "cross-overs, random paths) through the real parser, router and serializer; compared with a segment-wise reference. distinct_nontrivial = distinct (route-set shape hash, request class) pairs."),
    quick=[R("c01", "rel", 8_000), R("c01", "miri", 8, shards=8, flags={"small": 1})],
    thorough=[R("c01", "rel", 200_000), R("c01", "dbg", 40_000), R("c01", "asan", 40_000), R("c01", "rel", 20_000, features=["openapi"]), R("c01", "miri", 160, shards=16, flags={"small": 1})],
    floors={"quick": {"evaluations": 1_000_000, "distinct": 5_000, "class:static-over-param-preference": 500, "class:prefix-near-miss": 5_000, "class:head": 1_000,
                      "class:nested-param-hit": 1_000, "class:trailing-slash-hit": 1_000, "class:empty-segment-miss": 1_000, "apps_built_via_tuple_api": 100},
            "thorough": {"evaluations": 20_000_000, "distinct": 50_000}},
    assumptions=["reference model: per-method segment-wise matching, static preferred at the earliest differing position, one trailing slash ignored, HEAD = GET without body",
                 "static segments compare byte-identical on the raw (undecoded) path", "rt_tokio build only"],
)
META["C01"] = dict(
    engine="vh c01",
    technique="runtime monitoring: differential reference-model oracle over generated route sets x request paths, executed through the real parser/router/serializer; Miri and ASan on the same workload",
    level_text=("Each generated application is really built (4 registration orders + tuple API) and every generated request really dispatched; handler identity and received params are "
                "read from a trace written by the handlers and compared with a reference that shares no code with the router. Attribution to the known no-back-tracking finding is by defect model."),
    level_note="Trusts the reference model and the generator's validity rules (no duplicate (route shape, method), no routes under a sibling mount prefix). Bounded to <=2 params, depth <= ~7, generated alphabets.",
    design_ref="DESIGN.md §5 C01",
)

PLANS["C04"] = dict(
    level="exploration",
    rule=("generated trees of applications (depth <= 4) satisfying the property's side condition (each mount prefix used by one application, nothing else registered under it), 0-8 fangs per "
          "application (FangAction and hand-written Fang/FangProc in 4 mixing patterns), 0-2 local fangs per handler, static/param mount prefixes of 1-2 segments; every tree built in 3 registration "
          "orders + through the real tuple API; requests: every route under all 7 methods, misses inside / exactly at / just outside every mount (byte-extended and truncated prefixes), empty "
          "segments, random paths, each with and without an early-answer trigger for fangs on and off the path. The per-request trace of Enter/Leave/Early/Handler events written by the fangs "
          "must equal the order computed from the tree. distinct_nontrivial = distinct (tree shape, request class, method) with >= 2 applications on the path or a miss inside/just outside a mount."),
    quick=[R("c04", "rel", 6_000), R("c04", "miri", 8, shards=8, flags={"small": 1})],
    thorough=[R("c04", "rel", 150_000), R("c04", "dbg", 30_000), R("c04", "asan", 30_000), R("c04", "rel", 20_000, features=["openapi"]), R("c04", "miri", 96, shards=16, flags={"small": 1})],
    floors={"quick": {"evaluations": 1_000_000, "distinct": 20_000, "early_answers": 50_000, "requests_under_2plus_apps": 200_000, "label:miss-inside": 50_000,
                      "label:just-outside-extended": 50_000, "apps_built_with_tuple_api_where_eligible": 1_000, "max_depth": 3},
            "thorough": {"evaluations": 20_000_000, "distinct": 200_000}},
    assumptions=["reference: applications on the path outermost first, fangs in declaration order, local fangs innermost, reverse on the way out, early answer cuts everything inside",
                 "requests whose dispatched route is changed by C01's known no-back-tracking finding are skipped (counted in observed.skipped:c01-no-backtracking)",
                 "configurations are restricted to the property's side condition; param-prefixed mounts are generated without static siblings at the param position"],
)
META["C04"] = dict(
    engine="vh c04",
    technique="runtime monitoring: trace-equality oracle (events logged by instrumented user fangs/handlers) against the order computed from the generated configuration tree; Miri/ASan on the same workload",
    level_text=("Real applications are assembled from generated trees and every request's fang trace is recorded at the user boundary and compared exactly with the expected onion order and scope, "
                "including misses inside and just outside each mount and early answers at every position."),
    level_note="Trusts the reference computation and the generator's side-condition filter; fang tuples follow 4 fixed type patterns; trees up to depth 4.",
    design_ref="DESIGN.md §5 C04",
)

PLANS["C03"] = dict(
    level="exploration",
    rule=("operation histories (0-40 operations, 0.5% of 260-700 to exceed 255 header insertions) over the public Response API: any of the 60 statuses; set (&'static str / String / Cow / Some(Cow)), "
          "remove, append on all 45 standard header setters (framing headers excluded) and 7 custom names over a small hot working set so that operations collide; SetCookie with directive subsets; "
          "text/html/json/payload bodies set repeatedly, drop_content, without_content. Each history is (a) sent directly with the declared size read through the hook and (b) returned by a handler "
          "through Router::handle for GET and HEAD, serialised by the real send into an in-memory writer, re-parsed by an independent response parser and compared with a map model. "
          "distinct_nontrivial = distinct abstract histories (op kinds per header, values as length classes) containing remove-then-set, append-after-set or a body replacement. "
          "The in-memory engine sends every response through the hook's one-shot `send`; what the real session does around it (whatever it keeps per connection between responses) is observed by the "
          "TCP engine (`c05tcp`: the real `howl` in a child process, keep-alive sequences of 2-520 requests whose responses grow and shrink, compared byte for byte with the in-memory session)."),
    quick=[R("c03", "rel", 120_000), R("c05tcp", "rel", 800), R("c03", "miri", 160, shards=8, flags={"small": 1})],
    thorough=[R("c03", "rel", 3_000_000), R("c03", "dbg", 400_000), R("c03", "asan", 600_000), R("c05tcp", "rel", 8_000), R("c03", "miri", 3_200, shards=16, flags={"small": 1})],
    floors={"quick": {"evaluations": 100_000, "distinct": 20_000, "long_histories": 100}, "thorough": {"evaluations": 3_000_000, "distinct": 300_000, "long_histories": 5_000}},
    assumptions=["independent table of the standard header names (RFC spelling)", "header values never contain CR/LF/NUL (the code documents that as the user's responsibility)",
                 "custom header names differ from each other and from standard names ignoring case", "framing of 1xx/304 responses is not judged beyond the header set (the statement is silent)",
                 "rel/dbg run with the H3 capacity assertion (overrun -> panic); asan/miri run without it so that the tool sees the real out-of-bounds write"],
)
META["C03"] = dict(
    engine="vh c03 + vh c05tcp",
    technique="runtime monitoring: model-based oracle over generated operation histories, real serializer output re-parsed by an independent HTTP parser; capacity assertion hook (H3); ASan/Miri without the assertion; the real session's send path observed over loopback TCP against the in-memory session",
    level_text=("Every generated history is executed against the real Response/Headers code and its bytes are checked for well-formedness, for the live header set with latest values, for "
                "framing per status/method, and for written <= reserved bytes (assertion inside push_unchecked! and declared-size accessor)."),
    level_note="Trusts the response parser and the 20-line map model. Stream bodies are C17's. Histories are sampled, not enumerated.",
    design_ref="DESIGN.md §5 C03",
)


PLANS["C12"] = dict(
    level="exploration",
    rule=("per case one configuration (secret: empty / 1 byte / 64 / 200 bytes / Unicode; HS256/384/512) and ~200-2000 Authorization values: tokens issued by JWT::issue with exp/nbf/iat claims "
          "at now-1000..now+100000 (integer, fractional, negative, non-numeric), every 16th case EVERY single-character substitution/deletion/insertion of an issued token (else 15 positions), tokens "
          "re-signed with another secret / a prefix of the secret / another algorithm, algorithm-confusion and header-mismatch variants, alg none/None/missing/lower-case/non-string with and without "
          "signature, typ/cty/kid/whitespace header variants, 1/2/4/5 parts, empty parts, signature prefixes/extension/non-canonical trailing bits/padding, same-length tags that defeat aggregate comparisons (reversed, swapped, rotated, cancelling two-byte xor/sum "
          "differences, all-zero, sorted), other schemes, no header, OPTIONS. "
          "Every case is driven through the real fang in front of a handler that records the payload it saw; a Python judge (hmac, hashlib, base64, json) decides accept/reject/either per case. "
          "In addition 15 boundary probes per run (3 algorithms x exp / nbf / iat equal to the verification second, exp and nbf one second later): the worker waits for a clock tick, "
          "sends the request, and reads the clock before and after; the observation counts only if both readings are the claim's second (exp == now must be refused, nbf == now and iat == now admitted). "
          "distinct_nontrivial = distinct (algorithm, mutation kind) pairs."),
    quick=[R("c12", "rel", 1_600, flags={"dump": "@SCRATCH"}, post="c12")],
    thorough=[R("c12", "rel", 24_000, flags={"dump": "@SCRATCH"}, post="c12"), R("c12", "asan", 2_000), R("c12", "dbg", 2_000)],
    floors={"quick": {"evaluations": 300_000, "distinct": 100, "accepted": 5_000, "cases_judged_by_python": 300_000, "kind:substitution": 50_000, "kind:alg-confusion": 1_000, "kind:signature-prefix": 5_000, "boundary:exp-relative-to-now": 3, "boundary:nbf-relative-to-now": 3},
            "thorough": {"evaluations": 4_000_000, "distinct": 100, "cases_judged_by_python": 3_000_000}},
    assumptions=["the Python judge is the oracle; the worker's own judge (sha2/hmac crates) must not contradict it on any case", "time claims of the bulk cases are generated >= 10 s away from the clock reading (the boundary itself is covered by the 15 clock-bracketed probes); "
                 "cases for which the clock readings before and after the request give different verdicts count as 'either'",
                 "correctly signed tokens with unusual header fields (typ/cty not JWT), non-numeric claims or a non-object payload are 'either': the statement is silent"],
)
META["C12"] = dict(
    engine="vh c12 + oracle/jwt_judge.py",
    technique="runtime monitoring: recorded event log of the real fang's decisions (handler ran / payload seen / status) judged offline by an independent Python HMAC/base64url/JSON reference",
    level_text=("Each token is presented to the real JWT fang in a real application; whether the identity-echoing handler ran and what it saw is logged with the configuration and clock readings and "
                "judged by Python code that shares nothing with ohkami. Single-character mutations of issued tokens are exhaustive for a sample of tokens."),
    level_note="Trusts Python's hmac/hashlib/base64/json and the judge's reading of the statement (documented in oracle/jwt_judge.py). Token space is sampled.",
    design_ref="DESIGN.md §5 C12",
)

PLANS["C13"] = dict(
    level="exploration",
    rule=("per case a list of 1-4 configured pairs (Unicode, colons inside passwords, empty parts, pairs that extend each other or share a user), single and array form of the fang, and ~30 "
          "Authorization values per pair: the correct one, scheme case/spacing variants, other schemes, suffix junk, unpadded / url-alphabet / non-canonical base64, password and user extended or "
          "truncated, swapped, no colon, extra colon part, single-character substitutions, user of one pair with password of another, payloads that are not UTF-8 after decoding, invalid base64, "
          "raw high bytes, missing header. Oracle: handler runs iff the value is exactly 'Basic ' + base64(user:password) of a configured pair (independent base64); otherwise 401 + Basic challenge. "
          "distinct_nontrivial = distinct (form, pair-list shape, header class)."),
    quick=[R("c13", "rel", 6_000), R("c13", "miri", 8, shards=8, flags={"small": 1})],
    thorough=[R("c13", "rel", 200_000), R("c13", "asan", 20_000), R("c13", "dbg", 20_000), R("c13", "miri", 64, shards=16, flags={"small": 1})],
    floors={"quick": {"evaluations": 300_000, "distinct": 2_000, "admitted": 10_000, "class:mixed-pairs": 3_000, "class:non-utf8-payload": 10_000},
            "thorough": {"evaluations": 10_000_000, "distinct": 5_000}},
    assumptions=["usernames contain no colon (RFC 7617); passwords may", "base64 reference written for the harness (httpref::b64_encode)"],
)
META["C13"] = dict(
    engine="vh c13",
    technique="runtime monitoring: iff-oracle over generated credential lists x Authorization values against an independent base64 reference, through the real fang in a real application",
    level_text="Every header value is sent through the real parser, fang and handler; admission is read from a trace event written by the handler and compared with the exact-match rule.",
    level_note="Trusts the harness's base64 encoder and the exact-match reading of the statement. Sampled credential and header space.",
    design_ref="DESIGN.md §5 C13",
)

PLANS["C02"] = dict(
    level="exploration",
    rule=("60% requests of the supported subset from a grammar (7 methods; origin-form targets of depth 0-4 with percent-escapes, up to 880 bytes, optional query; 0-12 headers from the 46 standard and 8 "
          "custom names, each in exact/lower/UPPER/rAnDoM case, repeated headers; values of printable ASCII and UTF-8; bodies of 0..20000 bytes incl. first byte 0x00, all-zero, NUL inside, binary, sizes "
          "around the 1 KiB buffer; Content-Length in any case, with leading zeros), 40% malformed variants by 25 mutation kinds (truncation at 4 structural points, no second space, bad/short version, "
          "LF-only, missing colon-space, Content-Length abc/-1/+5/' 5'/20+ digits/4294967296/duplicate differing, non-UTF-8 path and header value, NUL in request line and header, unknown and "
          "lower-case method, garbage, Transfer-Encoding: chunked, empty header name, control characters inside the target, bare line breaks inside a header value). Each byte string is the first read of a fresh connection into the real Request::read; the parsed request is "
          "inspected through every accessor under catch_unwind and compared with an independent reference parser. distinct_nontrivial = distinct (method, target shape, header count/casing pattern, "
          "body class, mutation kind) vectors."),
    quick=[R("c02", "rel", 160_000), R("c02", "miri", 100_000, shards=8, flags={"small": 1})],
    thorough=[R("c02", "rel", 4_000_000), R("c02", "dbg", 500_000), R("c02", "asan", 500_000), R("c02", "miri", 100_000, shards=16, flags={"small": 1}),
              R("fuzz", "rel", 150, external="fuzz", flags={"target": "request", "max_len": 400}), R("fuzz", "dbg", 60, external="fuzz", flags={"target": "request", "max_len": 400})],
    floors={"quick": {"evaluations": 100_000, "distinct": 20_000, "faithful": 50_000, "refused-with-error": 20_000, "stuck-waiting-for-announced-body": 500},
            "thorough": {"evaluations": 4_000_000, "distinct": 100_000}},
    assumptions=["the subset is fixed by reqref::parse_request: one SP between request-line parts, HTTP/1.1, CRLF, 'Name: value' with token names and values without surrounding whitespace, "
                 "single all-digit Content-Length < 2^32", "heads larger than the 1 KiB buffer may be parsed or refused", "a body that is announced but not delivered may be waited for",
                 "outside the subset, odd header-name characters / whitespace around values / raw non-ASCII target bytes / bare LF may be parsed leniently (no panic, no hang, no accessor panic)"],
)
META["C02"] = dict(
    engine="vh c02",
    technique="runtime monitoring: differential oracle (independent strict reference parser) over grammar-generated and mutated byte strings fed to the real reader through a scripted in-memory connection; accessor panics and logical hangs observed directly; Miri/ASan on the same workload",
    level_text=("Every input is executed through the real Request::read; the outcome (parsed / error response / close / panic / waiting with all bytes delivered) and every public accessor of the parsed "
                "request are observed and compared with the reference. Hangs are decided logically by the executor (pending, script exhausted, no wake owed), not by timeouts."),
    level_note="Trusts the reference parser and its reading of 'supported subset' (spelled out in assumptions). Inputs are sampled from the grammar and mutation kinds.",
    design_ref="DESIGN.md §5 C02",
)

PLANS["C05"] = dict(
    level="exploration",
    rule=("sequences of 2-12 requests on one connection against a catalogue application (echo handler reporting method, path, params, query, 14 probed headers, a per-request context entry set by a "
          "fang, payload): mixed methods and routes, header sets of different sizes in random casing, bodies incl. NUL at chosen offsets and sizes 300..5000 around the 1 KiB buffer, context use, "
          "Connection: close at a random position, malformed requests in the middle, plus a targeted generator aligning stale bytes of request k with request k+1; one segment per request. Two engines: "
          "mem = the session loop re-expressed over the hooks on a scripted in-memory connection; tcp = the real Ohkami::howl in a child process with a lock-step blocking client. Oracles: response k "
          "== response of the same request alone on a fresh connection == what the reference parser + application predict; every request carries a unique token in every field and no token may "
          "appear in another request's response; nothing after Connection: close; mem and tcp agree byte for byte. distinct_nontrivial = distinct sequence shapes with a longer->shorter "
          "transition, NUL body or context use."),
    quick=[R("c05", "rel", 16_000), R("c05tcp", "rel", 1_600), R("c05", "miri", 16, shards=8, flags={"small": 1})],
    thorough=[R("c05", "rel", 400_000), R("c05", "dbg", 60_000), R("c05", "asan", 60_000), R("c05tcp", "rel", 16_000), R("c05tcp", "tsan", 1_600), R("c05", "miri", 160, shards=16, flags={"small": 1})],
    floors={"quick": {"evaluations": 80_000, "distinct": 5_000, "taint_tokens_checked": 300_000, "connection_close_seen": 2_000, "malformed_in_sequence": 2_000, "tcp_sequences_agreeing_with_mirror": 1_500,
                      "echo_matches_reference": 30_000},
            "thorough": {"evaluations": 2_000_000, "distinct": 50_000, "tcp_sequences_agreeing_with_mirror": 15_000}},
    assumptions=["request heads stay below the 1 KiB buffer (a refused oversized head legitimately desynchronises any connection)", "malformed requests in the middle are small and body-less",
                 "the mem engine runs a mirror of Session::manage; the tcp engine bounds the gap to the real loop", "Date headers are normalised"],
)
META["C05"] = dict(
    engine="vh c05 + vh c05tcp",
    technique="runtime monitoring: differential (same request alone) + reference + taint-token oracles over recorded per-request responses on an in-memory connection; cross-checked against the real server over loopback TCP in lock-step; ASan/Miri/TSan variants",
    level_text=("Histories of requests are executed through the real read/handle/send code on one reused Request object and, separately, through the real howl/Session over a socket; every response is "
                "compared with the fresh-connection response, with the reference prediction, and scanned for tokens of other requests."),
    level_note="Trusts the reference parser, the echo model and the session mirror (bounded by the tcp comparison). Sequences are sampled.",
    design_ref="DESIGN.md §5 C05",
)

PLANS["C06"] = dict(
    level="exploration",
    rule=("request sequences of 1-4 requests (as in C05, no malformed ones) and segmentations of their concatenated byte stream delivered through a scripted in-memory AsyncRead: head|body, body split "
          "into random pieces, body byte by byte with interleaved Pending, first read = head + part of the body, bodies smaller and larger than the rest of the 1 KiB buffer, starting with 0x00 or "
          "not, random cuts; plus the two known-bad classes (cut inside a head incl. exhaustive every-byte cuts of short heads; several requests / one-and-a-half requests per segment). Oracle: the "
          "response sequence of the canonical delivery (one segment per request, itself checked by C02/C05) must be reproduced; taint tokens for cross-request attribution. A paced real-socket "
          "sample (TCP_NODELAY, head and body pieces written separately) cross-checks the mirror; its disagreements are inconclusive by design. distinct_nontrivial = distinct (request shapes, "
          "segmentation class)."),
    quick=[R("c05", "rel", 30_000, flags={"mode": "c06"}), R("c05tcp", "rel", 320, flags={"mode": "c06"}), R("c05", "miri", 16, shards=8, flags={"mode": "c06", "small": 1})],
    thorough=[R("c05", "rel", 1_000_000, flags={"mode": "c06"}), R("c05", "asan", 100_000, flags={"mode": "c06"}), R("c05", "dbg", 100_000, flags={"mode": "c06"}), R("c05tcp", "rel", 3_200, flags={"mode": "c06"}),
              R("c05", "miri", 160, shards=16, flags={"mode": "c06", "small": 1})],
    floors={"quick": {"evaluations": 30_000, "distinct": 10_000, "same-as-canonical:head|body": 2_000, "same-as-canonical:body-split": 2_000, "same-as-canonical:first-read-head+part-of-body": 2_000,
                      "same-as-canonical:body-bytewise": 1_000, "class:head-split": 200, "class:coalesced": 200},
            "thorough": {"evaluations": 1_000_000, "distinct": 100_000}},
    assumptions=["unmonitored_classes: head-split and coalesced/straddling are attributed wholesale to the known findings C06-F1 / C06-F2 (no sensitivity to further breakage inside them)",
                 "the in-memory engine runs the mirror of Session::manage, not the real loop"],
)
META["C06"] = dict(
    engine="vh c05 --mode c06 (+ vh c05tcp --mode c06)",
    technique="runtime monitoring: schedule-varying differential oracle (same byte stream under scripted segmentations vs canonical delivery) with taint tokens; paced real-socket sample as cross-check",
    level_text=("The same bytes are delivered to the real reader under generated read schedules; the produced response sequences must coincide. Segment boundaries are chosen by the harness's AsyncRead, "
                "so the schedule is controlled, recorded and replayable."),
    level_note="Two input classes are known-bad and unmonitored (see known_findings.json). Trusts the canonical delivery as reference (checked by C02/C05).",
    design_ref="DESIGN.md §5 C06",
)

PLANS["C07"] = dict(
    level="exploration",
    rule=("a catalogue application with handlers for all 13 built-in param types (10 integer widths in bare, 1-tuple, (T, String) and (String, T) form; String, Cow<str>, &str) and the extractors "
          "Query, JSON, URLEncoded, Multipart, Text, their Option forms and two combinations (param + Query + JSON; two params + Query + Option<Text>). Segments: MIN/MAX and +-1 of every width, "
          "2^64+-1, 30 digits, digits+garbage, +sign, -0, leading zeros, decimal point, percent-encoded digits, %FF, %2F, trailing space, letters, negatives, in-range random; Content-Type exact / "
          "with charset / mismatching / missing / prefix-sharing; valid and invalid bodies (wrong types, missing fields, trailing bytes, truncation, invalid UTF-8). Oracle: Rust FromStr on the whole "
          "decoded segment for integers (canonical in-range forms must arrive with that value; out-of-range / garbage must stop the handler with status >= 400; forms the statement is silent on are "
          "not judged), percent-decoding for strings, serde_json on the same bytes for JSON, the generator's own values for the other bodies; Option is None only if the item is absent. "
          "distinct_nontrivial = distinct (signature, segment/body class, Content-Type class)."),
    quick=[R("c07", "rel", 6_000), R("c07", "dbg", 2_000), R("c07", "miri", 8, shards=8, flags={"small": 1})],
    thorough=[R("c07", "rel", 150_000), R("c07", "dbg", 40_000), R("c07", "asan", 40_000), R("c07", "miri", 160, shards=16, flags={"small": 1})],
    floors={"quick": {"evaluations": 250_000, "distinct": 800, "delivered_exactly": 80_000, "refused_as_expected": 50_000}, "thorough": {"evaluations": 6_000_000, "distinct": 900}},
    assumptions=["1-param handlers are registered on 1-param routes only (which parameter a shorter signature gets on a longer route is not stated)", "+5, -0 and leading zeros are 'silent' forms: not judged",
                 "prefix-sharing Content-Types (application/jsonx) are not judged", "multipart text fields decode into string-like fields only (as serde_multipart documents)"],
)
META["C07"] = dict(
    engine="vh c07",
    technique="runtime monitoring: reference-parsing oracle (Rust FromStr / serde_json / generator-known values) over generated segments, Content-Types and bodies, through the real parser, router and IntoHandler glue; release and debug builds both (wrapping vs panicking arithmetic), ASan/Miri",
    level_text="Typed values are read from a trace written by the handlers (or its absence), so both 'exact value' and 'handler does not run' are observed directly for every request.",
    level_note="Trusts FromStr/serde_json as references and the classification of silent forms. One fixed catalogue of signatures, sampled inputs.",
    design_ref="DESIGN.md §5 C07",
)

PLANS["C09"] = dict(
    level="exploration",
    rule=("(a) round trip to_string -> from_bytes of generated values of single-field structs over every supported field type (bool, 10 integer widths at MIN/MAX/0/+-1/random, f32/f64 incl. "
          "subnormals, -0.0, inf, NaN, random bit patterns, char over all planes incl. & = % + , space, String of arbitrary Unicode and reserved characters, newtypes, Option<String>, Option<u32>, "
          "unit enums incl. a renamed variant with a space, Vec<String>, Vec<u32>, (u8, String), BTreeMap<String,String> with arbitrary keys) and an 11-field mixed struct; (b) generated "
          "key=value&... texts with randomly styled percent-escapes (upper/lower hex, escaped unreserved characters, multi-byte UTF-8, raw '+'), decoded into a string map, into a struct (shuffled "
          "order, unknown extra pairs, percent-escaped digits) and read through req.query.iter() of a request parsed by the real reader; oracle: value equality (floats bitwise, NaN~NaN) and an "
          "independent split + RFC 3986 decoder. distinct_nontrivial = distinct (type, value class) and (target, shape) pairs."),
    quick=[R("c09", "rel", 12_000), R("c09", "miri", 8, shards=8, flags={"small": 1})],
    thorough=[R("c09", "rel", 400_000), R("c09", "dbg", 60_000), R("c09", "asan", 60_000), R("c09", "miri", 96, shards=16, flags={"small": 1})],
    floors={"quick": {"evaluations": 400_000, "distinct": 1_500, "round_trip_equal": 250_000, "query_iter_equal": 40_000}, "thorough": {"evaluations": 10_000_000, "distinct": 3_000}},
    assumptions=["values the serializer refuses (raw bytes, nested maps) are outside the statement", "well-formed texts only: every pair has '=' and a non-empty key, every '%' starts a valid escape of UTF-8"],
)
META["C09"] = dict(
    engine="vh c09",
    technique="runtime monitoring: round-trip equality oracle and differential oracle (independent split-and-percent-decode reference) over generated values and encodings, on the real serializer, deserializer and query iterator",
    level_text="Every generated value and text is pushed through the real code; the decoded result is compared with the original value / the reference pairs.",
    level_note="Trusts the reference decoder and the value generators; sampled value space.",
    design_ref="DESIGN.md §5 C09",
)

PLANS["C11"] = dict(
    level="exploration",
    rule=("(a) cookie jars of 1-6 cookies (known names incl. '_ga', 'a.b-c', 'X!tok' and unknown names over the RFC token alphabet; values: empty, base64 with '=' padding, 'a=b=c', Unicode, "
          "directive look-alikes, all cookie-octets) each value sent plain, percent-encoded or double-quoted, shuffled, decoded into three struct shapes (String/u32/Option/Cow fields, renamed fields, "
          "unknown cookies) with serde_cookie::from_str and iterated with req.headers.Cookies() on a request parsed by the real reader; (b) Set-Cookie built through "
          "res.headers.set().SetCookie(name, value, directives) for every one of the 128 directive subsets (Expires, Max-Age in {0,1,3600,2^32,u64::MAX}, Domain, Path, Secure, HttpOnly, SameSite) x "
          "value classes, serialised by the real send, checked against an RFC 6265 set-cookie-string grammar parser, parsed back by that parser and by the crate's own SetCookie accessors. "
          "distinct_nontrivial = distinct (jar shape, encoding set) and (directive subset, value class)."),
    quick=[R("c11", "rel", 6_000), R("c11", "miri", 16, shards=8, flags={"small": 1})],
    thorough=[R("c11", "rel", 300_000), R("c11", "dbg", 40_000), R("c11", "asan", 40_000), R("c11", "miri", 160, shards=16, flags={"small": 1})],
    floors={"quick": {"evaluations": 140_000, "distinct": 700, "typed_decoded_equal": 45_000, "iterator_equal": 45_000, "set_cookie_reference_round_trip": 45_000, "set_cookie_own_round_trip": 45_000},
            "thorough": {"evaluations": 7_000_000, "distinct": 800}},
    assumptions=["plain (unencoded) values never contain '%': the decoder percent-decodes, so a conforming sender that percent-encodes at all encodes '%'", "the iterator may yield quoted values with or without their quotes",
                 "Max-Age grammar taken as 1*DIGIT (RFC 6265bis)"],
)
META["C11"] = dict(
    engine="vh c11",
    technique="runtime monitoring: round-trip oracles against an independent RFC 6265 encoder / set-cookie-string parser, over generated jars and all 128 directive subsets, through the real decoder, request reader, response builder and serializer",
    level_text="Typed decoding, the cookie iterator and Set-Cookie building are each executed on generated inputs and compared with the jar / re-parsed with an independent grammar parser and the crate's own parser.",
    level_note="Trusts the harness's RFC 6265 codec. Directive subsets are exhaustive (128); values and jars sampled.",
    design_ref="DESIGN.md §5 C11",
)

PLANS["C10"] = dict(
    level="exploration",
    rule=("forms of 1-9 parts (text fields and files, several files under one name in submission order, nameless empty placeholder parts, named empty files, contents with CRLF inside, ending in CR / LF / "
          "CRLF, only CRLF, '--', dash lines, NUL, high bytes, up to 3000 random bytes, Unicode texts and filenames, media types with parameters) encoded by an independent RFC 7578 encoder "
          "(boundaries of length 1-70 over the RFC 2046 alphabet incl. WebKit style, chosen not to occur in any content; optional extra part headers; lower-case header names; Content-Type before "
          "Content-Disposition; shuffled field groups) and decoded by serde_multipart::from_bytes into three catalogue types (&str/String/Option<&str> texts, File, Option<File>, Vec<File>, renamed "
          "fields, unknown fields); field-by-field equality incl. file order; shape mismatches (missing file, empty input into required File, two files into one, text where file expected and vice "
          "versa, missing text) must be errors. distinct_nontrivial = distinct (target, shape, part count, content-class set, encoder options)."),
    quick=[R("c10", "rel", 8_000), R("c10", "miri", 16, shards=8, flags={"small": 1})],
    thorough=[R("c10", "rel", 200_000), R("c10", "dbg", 40_000), R("c10", "asan", 40_000), R("c10", "miri", 400, shards=16, flags={"small": 1})],
    floors={"quick": {"evaluations": 90_000, "distinct": 5_000, "decoded_equal": 50_000, "shape_mismatch_refused": 20_000}, "thorough": {"evaluations": 2_000_000, "distinct": 20_000}},
    assumptions=["same-name files are consecutive (as a form submission produces them)", "an absent Vec<File> field is declared with serde(default) by the user type", "an empty text input decodes to None for Option<&str>"],
)
META["C10"] = dict(
    engine="vh c10",
    technique="runtime monitoring: encode-with-reference / decode-with-real-code equality oracle over generated forms; Miri in both tiers (the parser is from_raw_parts / unwrap_unchecked / unreachable_unchecked code), ASan on the bulk",
    level_text="Every generated form is encoded by an independent encoder, decoded by the real parser and compared field by field; misfitting shapes must be refused.",
    level_note="Trusts the harness's RFC 7578 encoder and the expectations about placeholder parts. Sampled forms.",
    design_ref="DESIGN.md §5 C10",
)

PLANS["C08"] = dict(
    level="exploration",
    rule=("calls (decoder, target type, input) for serde_urlencoded::from_bytes and serde_cookie::from_str against 39 target types each (every deserialize_* entry point as struct field, inside Option / "
          "newtype / seq / tuple / enum incl. data-carrying variants, maps, struct with unknown fields, borrowed &str / Cow, nested struct, scalars at top level), serde_multipart::from_bytes against "
          "16 types (File, Vec<File>, Option<File>, tuples of files, texts, maps), percent_decode(_utf8), iter_cookies, FromParam::from_raw_param for all 13 param types, and the Set-Cookie accessors "
          "on lines built from hostile directive strings; inputs: uniform random bytes, grammar-valid encodings, mutants (delimiter doubling/removal, truncation, '%' + 0-2 arbitrary bytes, high bytes, "
          "NUL, huge digit strings, commas, boundary look-alikes, LF-only, broken headers). Every input is run against every target type of its decoder. Oracle: no panic, no process death, no call "
          "beyond 2 s of thread CPU time, confirmed by three re-measurements (watchdog: 20 s wall kills the worker and the journal names the call), every yielded str valid UTF-8, every borrowed slice inside the input. distinct_nontrivial = distinct "
          "(decoder, target type, outcome, input class). Thorough tier in addition: a libFuzzer target (harness/fuzz, ASan + debug assertions) proposes coverage-guided inputs to the same "
          "monitor code for 150 + 60 s on 16 cores; every artifact and the whole corpus it built are replayed through the ordinary release and debug workers."),
    quick=[R("c08", "rel", 40_000, max_restarts=4), R("c08", "dbg", 10_000, max_restarts=4), R("c08", "miri", 48, shards=8, flags={"small": 1})],
    thorough=[R("c08", "rel", 3_000_000), R("c08", "dbg", 400_000), R("c08", "asan", 600_000), R("c08", "miri", 3_200, shards=16, flags={"small": 1}),
              R("fuzz", "rel", 150, external="fuzz", flags={"target": "decoders", "max_len": 600}), R("fuzz", "dbg", 60, external="fuzz", flags={"target": "decoders", "max_len": 600})],
    floors={"quick": {"evaluations": 1_000_000, "distinct": 350, "urlencoded:ok": 15_000, "cookie:ok": 10_000, "multipart:ok": 5_000, "urlencoded:err": 100_000, "multipart:err": 50_000},
            "thorough": {"evaluations": 60_000_000, "distinct": 450}},
    assumptions=["'never loops' is restated as bounded progress: <= 2 s per call on inputs <= 4 KiB, and a 20 s wall-clock kill switch per call", "memory blow-ups are bounded by RLIMIT_AS = 6 GiB per worker (an abort is attributed to the running call)",
                 "debug-build assertions that guard against target types the format cannot represent (scalar at top level, map as a value) fire on the type, not the bytes: those targets are skipped in debug builds",
                 "Miri runs a rotating sixth of the target types per input"],
)
META["C08"] = dict(
    engine="vh c08",
    technique="runtime monitoring with sanitizers: panic/abort/hang observation per call in isolated workers with a case journal, UTF-8 and pointer-range monitors on every yielded value, Miri in both tiers, ASan on the bulk, release and debug builds",
    level_text=("Totality is observed directly: each call either returns or the monitor records panic / death / hang against the journalled call; yielded strings and borrowed slices are validated by "
                "an inspection visitor. Miri covers the unsafe paths (take_n_unchecked, from_raw_parts, unwrap_unchecked, unreachable_unchecked) on a smaller workload."),
    level_note="Sampled inputs; a clean sanitizer run is not memory safety. The watchdog's verdict on hangs is wall-clock based by necessity (the decoder owns the loop), with a 10x margin over the CPU bound.",
    design_ref="DESIGN.md §5 C08",
)

PLANS["C14"] = dict(
    level="exploration",
    rule=("the full 2x2x2x2x2 policy matrix (wildcard / specific origin, credentials, allow-headers list or none, expose list or none, max-age or none; walked by case index) on generated applications "
          "(routes with method subsets, the same route split over several items, nested mounts with and without routes at the mount point, every fourth case with the methods of one path split over applications - a route "
          "of the parent exactly at a mount prefix whose mounted application has a route at '/', and two applications mounted at one prefix -, items in shuffled registration order, CORS on the "
          "root or (not for split cases) on a mounted application) x requests per path (simple requests of 6 methods, OPTIONS without request-method, preflights for every method incl. HEAD/OPTIONS/unknown/lower-case/substring/"
          "list look-alikes, with and without Access-Control-Request-Headers, to every registered path, a miss inside the scope and a miss at the root). Oracle: reference CORS model over the policy "
          "and the route table of the description. distinct_nontrivial = distinct (policy vector, registered-method set, request class)."),
    quick=[R("c14", "rel", 3_200), R("c14", "miri", 8, shards=8, flags={"small": 1})],
    thorough=[R("c14", "rel", 80_000), R("c14", "dbg", 16_000), R("c14", "asan", 16_000), R("c14", "rel", 8_000, features=["openapi"]), R("c14", "miri", 64, shards=16, flags={"small": 1})],
    floors={"quick": {"evaluations": 250_000, "distinct": 2_000, "class:preflight-ok": 30_000, "class:preflight-bad-method": 60_000, "class:preflight-unregistered-path": 40_000, "class:simple": 80_000,
                      "split:apps-with-a-path-shared-by-two-applications": 100},
            "thorough": {"evaluations": 7_000_000, "distinct": 4_000}},
    assumptions=["paths matched by more than one route pattern (static next to param) are not judged", "responses outside the fang's scope are not judged", "Allow-Methods is compared as a set",
                 "an application mounted at a prefix that an earlier application already uses has only a route at '/': ohkami refuses at start-up two merged subtrees that begin with the same segment"],
)
META["C14"] = dict(
    engine="vh c14",
    technique="runtime monitoring: reference-model oracle (CORS model over policy + registered route table) on responses of the real fang in generated applications",
    level_text="Each request is sent through the real parser, router, CORS fang and serializer; status, body presence and every Access-Control-* header are compared with the model.",
    level_note="Trusts the reference CORS model. Policy matrix exhaustive (32), applications and requests sampled.",
    design_ref="DESIGN.md §5 C14",
)

PLANS["C17"] = dict(
    level="exploration",
    rule=("message sequences (0-30 messages; empty, LF / CR / CRLF inside, trailing and leading line breaks, blank lines, leading space, leading ':', 'data:' / 'event:' / 'id:' / 'retry:' "
          "look-alikes, CR-based field injection, arbitrary Unicode, 4 KiB..1 MB messages) x scripted producer schedules (bursts before the first yield, yield or park before each push, random "
          "mixes, nothing / yields / long pauses / park-then-yield after the last push, completion with a non-empty queue) x three producer kinds (DataStream::new, From<Stream>, stream::queue); "
          "'park' returns Pending and is woken later from outside on an idle executor turn, 'yield' wakes itself. The response goes through the real router and send into an in-memory writer; "
          "oracle: 200, chunked, no Content-Length, text/event-stream, strict de-chunking with the terminating chunk and nothing after it, and an independent WHATWG event-stream parser must "
          "dispatch exactly the messages in order (line breaks normalised to LF), no other event type or id; a task pending with no wake owed is 'stuck'. distinct_nontrivial = distinct "
          "(producer kind, message-class set, run-length-compressed schedule shape) with at least one Pending or line break."),
    quick=[R("c17", "rel", 24_000), R("c17", "miri", 24, shards=8, flags={"small": 1}, miriflags="-Zmiri-disable-stacked-borrows")],
    thorough=[R("c17", "rel", 1_500_000), R("c17", "dbg", 100_000), R("c17", "asan", 100_000), R("c17", "miri", 320, shards=16, flags={"small": 1}, miriflags="-Zmiri-disable-stacked-borrows")],
    floors={"quick": {"evaluations": 24_000, "distinct": 5_000, "streams_decoded_exactly": 20_000, "idle_turns_with_external_wake": 10_000, "max_queue_depth": 8},
            "thorough": {"evaluations": 1_500_000, "distinct": 50_000}},
    assumptions=["Miri runs with -Zmiri-disable-stacked-borrows for this property: QueueStream/Queue::push (producer writes through a raw pointer while poll_next holds &mut self) is rejected by the "
                 "Stacked Borrows aliasing model at ohkami_lib/src/stream.rs; that is an aliasing-model observation outside what C17 states (delivery and framing), recorded in DESIGN.md §7, and Miri "
                 "keeps checking everything else (use-after-free, uninitialised reads, invalid pin projections that move)", "messages contain no NUL"],
)
META["C17"] = dict(
    engine="vh c17",
    technique="runtime monitoring: schedule-scripted executions of the real stream/send code with a counting-waker executor (logical stuck detection), output decoded by an independent de-chunker and WHATWG event-stream parser",
    level_text="Producer schedules are controlled by a scripted future/stream and recorded; the bytes of every execution are decoded independently and compared with the messages sent.",
    level_note="Trusts the harness's event-stream parser and de-chunker. Schedules and messages sampled.",
    design_ref="DESIGN.md §5 C17",
)

PLANS["C19"] = dict(
    level="exploration",
    rule=("generated directory trees written to a scratch directory (depth 0-4, 0-25 files, names over the route alphabet with dots, dashes, digits, upper case, every one of the 16 supported "
          "extensions, empty files, a 1 MB file, binary and UTF-8 contents, index.html at any level, names that differ only by extension, a file outside the directory) mounted at '/', '/static', "
          "'/a/b' or '/public' with omit_extensions in {none, [html], [.html, js], [css, html, json]}, optionally next to an ordinary route; after start-up the first file is overwritten and a file "
          "is added (snapshot semantics). Requests: every expected path under GET/HEAD/POST/DELETE, with trailing slash, name extended / truncated by a byte, case variants, full name with "
          "extension, without extension, every directory, '..' and '.' segments, doubled and encoded separators, %2e%2e, the outside file by several spellings, the added file. Oracle: map from the "
          "generator's own tree (independent extension->media type table); everything else 404; bodies byte-identical to the start-up content. distinct_nontrivial = distinct (mount, omit set, "
          "request class, method, depth, extension) and miss classes."),
    quick=[R("c19", "rel", 1_600), R("c19", "miri", 8, shards=8, flags={"small": 1})],
    thorough=[R("c19", "rel", 40_000), R("c19", "dbg", 4_000), R("c19", "asan", 4_000), R("c19", "miri", 48, shards=16, flags={"small": 1})],
    floors={"quick": {"evaluations": 100_000, "distinct": 500, "files_served_identically": 20_000, "misses_404": 60_000, "trees_mounted": 1_400}, "thorough": {"evaluations": 3_000_000, "distinct": 1_000}},
    assumptions=["trees whose route derivation is ambiguous (a.html next to a/index.html with html omitted) are skipped and counted", "file names follow the route-segment rules and carry a supported extension (others are refused at start-up, which is documented)",
                 "media types compared with the IANA registrations of the 16 extensions"],
)
META["C19"] = dict(
    engine="vh c19",
    technique="runtime monitoring: reference-map oracle over generated on-disk trees and request sets, through the real Dir walk, router and serializer",
    level_text="Real directory trees are created, mounted and queried; status, Content-Type and body of every response are compared with the generator's own map, including paths that must not be served.",
    level_note="Trusts the generator's map and the extension table; sampled trees.",
    design_ref="DESIGN.md §5 C19",
)

PLANS["C18"] = dict(
    level="exploration",
    exhaustive={"quick": True, "thorough": True},
    rule=("one child process per scenario, each running the real howl on a multi-thread tokio runtime and receiving a real SIGINT handled by the real ctrlc thread. (a) interleavings: the five "
          "state-sharing operations (signal thread: store flag s1, take waker s2, wake s3; poll: [poll accept + read flag] p12, publish waker p3) in all C(5,2)=10 orders, each with the signal "
          "arriving at the 1st poll, after one accepted connection and after two (30 schedules, enumerated completely); turns are forced through the H4 scheduling points, the realised order is "
          "read back from the log; (b) in-flight sessions: 0-6 connections whose handlers block on gates opened in a scripted order, idle keep-alive connections, connections arriving after the "
          "interrupt handler finished while the woken poll of the accept loop is held at its first scheduling point (so that accept is ready at the very poll that has to notice the interrupt: a "
          "forced schedule), a handler that panics; (c) queued session: on a current-thread runtime, the interrupt is delivered through the hook inside the very poll of the accept loop that accepted a connection "
          "and spawned its session (second arrival at the first scheduling point within one poll of the task), so that the loop notices the interrupt while that session has not run a step: it is in flight all the same. Oracle over the event log (one sequence counter): progress in logical steps (handler finished and (poll returned Ready(None) or a wake of the task "
          "since its poll began), else lost wake-up), howl returns, and it returns after every handler_end of a session accepted before; nothing is served after the interrupt. "
          "distinct_nontrivial = distinct realised operation orders + distinct session completion orders."),
    quick=[R("c18", "rel", 18, shards=16)],
    thorough=[R("c18", "rel", 400, shards=16, flags={"repeats": 20}), R("c18", "tsan", 40, shards=16, flags={"repeats": 2}), R("c18", "dbg", 40, shards=16)],
    floors={"quick": {"evaluations": 40, "distinct": 12, "interleaving_runs": 30, "interleavings_returned": 30, "session_scenarios_ok": 12, "late_arrival_forced_at_the_interrupted_poll": 3, "scenarios_started_with_sigint_ignored": 2, "scenarios_with_connection_churn": 2, "scenarios_with_an_upgraded_session_in_flight": 1, "churn_sessions_completed_before_the_interrupt": 40_000, "queued_session_scenarios": 2},
            "thorough": {"evaluations": 1_000, "interleaving_runs": 600}},
    wall_limit={"quick": 600, "thorough": 3600},
    assumptions=["'always eventually' is restated as bounded progress: no lost wake-up state + return observed within 8 s after the race (10 s after the last session), and a scenario that misses that is re-run alone with 100 s of patience before it counts; a child that exceeds its watchdog (40 s / 160 s) is inconclusive",
                 "polling accept and reading the flag are one scheduling step (no statement boundary, no shared state between them)", "rt_tokio only", "the harness builds ohkami with the ws feature (for the upgraded-session scenario)"],
)
META["C18"] = dict(
    engine="vh c18 (+ vh c18child per scenario)",
    technique="runtime monitoring: forced-interleaving execution of the real signal handler / accept-loop poll through scheduling-point hooks with a real SIGINT (30 enumerated schedules, late-arrival, queued-session and final-wait windows), a waker for the accept-loop task that honours only the most recent poll, offline checker over the recorded event log (ordering, lost-wake-up predicate, bounded progress); TSan build in thorough",
    level_text=("All 30 (order, poll position) schedules are executed in the real code and the realised order is read back from the log; the lost-wake-up state is decided logically from counted "
                "polls and wakes of the accept-loop task, not by waiting. Session scenarios check return-after-all-sessions on the same log."),
    level_note="Schedules inside each atomic operation are not explored; only rt_tokio; session scenarios are sampled and partly time-paced (verdicts use sequence numbers).",
    design_ref="DESIGN.md §5 C18",
)


PLANS["C15"] = dict(
    level="exploration",
    rule=("generated applications assembled from a catalogue of 10 handler signatures (0-2 path params of integer/string type; Query, JSON, URLEncoded extractors over derived schemas with and "
          "without #[openapi(component)], nested components, the same component used by several operations; returns &str, String, JSON<T>, JSON<Vec<T>>, typed statuses Created/NoContent, "
          "Result<_, E> with documented error statuses), routes with several methods, nesting by mounts with static and param prefixes (param naming across mounts), openapi::Tag fangs, JWT / "
          "BasicAuth fangs at root or on a mounted application; every 8th case adds routes with more template params than the handler takes; a rare tenth signature returns a second type that claims the component name `Item` with another shape - "
          "next to any other user of `Item` the only acceptable outcome is a loud refusal at generation time, never a document. The document bytes of "
          "Ohkami::__openapi_document_bytes__ are judged by Python/jsonschema: JSON, OpenAPI 3.1, every schema position valid under Draft 2020-12, every $ref resolvable, every {p} a required path "
          "parameter in order, (path, method) pairs = registered pairs, per operation the declared path-param types, query parameters, request-body media type, response codes, security iff a "
          "guarding auth fang, tags, components; and one request built from each documented operation (template filled from declared parameter types, documented body media type and credentials) "
          "must reach exactly the registered handler. distinct_nontrivial = distinct (signature set, nesting size, auth placement vector)."),
    quick=[R("c15", "rel", 1_600, features=["openapi"], flags={"dump": "@SCRATCH"}, post="c15")],
    thorough=[R("c15", "rel", 40_000, features=["openapi"], flags={"dump": "@SCRATCH"}, post="c15"), R("c15", "dbg", 2_000, features=["openapi"], flags={"dump": "@SCRATCH"}, post="c15")],
    floors={"quick": {"evaluations": 1_600, "distinct": 300, "documents_judged_by_python": 1_400, "operations": 3_000, "schemas_validated": 8_000, "refs_resolved": 2_000, "probes": 3_000,
                      "signature_used:0": 50, "signature_used:1": 50, "signature_used:2": 50, "signature_used:3": 50, "signature_used:4": 50, "signature_used:5": 50, "signature_used:6": 50,
                      "signature_used:7": 50, "signature_used:8": 50, "contradicting_components_refused": 10},
            "thorough": {"evaluations": 40_000, "documents_judged_by_python": 36_000}},
    assumptions=["the expectations per signature (param types, query params, body media type, response codes) are written by hand in the catalogue table (engines/c15.rs SIGS)",
                 "at most one authentication fang guards a path (a probe request carries one Authorization header)", "Multipart and SSE signatures are not in the catalogue"],
)
META["C15"] = dict(
    engine="vh c15 (openapi feature build) + oracle/openapi_judge.py",
    technique="runtime monitoring: the real document generator is executed on generated applications; documents are judged offline by an independent Python checker (jsonschema 2020-12, ref resolution, description-vs-document comparison) and cross-checked by sending one request per documented operation through the real router",
    level_text="Documents are produced by the real code for generated applications and checked structurally and against the description; documented operations are exercised against the real router and must reach the registered handler.",
    level_note="Trusts the jsonschema package, the judge and the hand-written catalogue expectations. Sampled applications from a 9-signature catalogue.",
    design_ref="DESIGN.md §5 C15",
)


PLANS["C16"] = dict(
    level="exploration",
    rule=("generated Rust programs (gen/c16gen.py): per type a definition deriving Serialize, Deserialize and (second compile pass) openapi::Schema over the attribute grammar - named structs "
          "with 1-5 fields of scalar, Option, Vec, nested derived struct/enum types; container rename_all (all 8 rules), rename, default, deny_unknown_fields; field rename (identifier and "
          "non-identifier names), alias, default, default = path, skip, skip_serializing, skip_deserializing, skip_serializing_if (Option::is_none, Vec::is_empty, with and without default), "
          "flatten; newtype, tuple and unit structs; unit-only enums with rename_all and renames; enums with unit/newtype/tuple/struct variants under external, internal, adjacent and untagged "
          "representation with rename_all, rename_all_fields, variant renames, variant-level rename_all, skipped variants and several #[serde] attributes on one item; "
          "rename(serialize = .., deserialize = ..); #[serde(transparent)] named and newtype structs; #[openapi(component)]. The first 22 type ids are hand-written witnesses of repaired and known findings. Each program is compiled against /repo first with serde alone (a refusal there drops the "
          "type as a generator fault) and then with derive(Schema) (a refusal there is a violation), run, and prints schema(), serde_json::to_value of 10 instances (one with every optional "
          "populated, four with every optional empty, five random) and probes that delete one key of one object at any depth and call from_value. oracle/schema_judge.py (jsonschema 2020-12) "
          "requires: schema valid; every instance validates; closed-world validation (additionalProperties:false injected) so every key written at any depth is declared; per object-schema "
          "node reached: declared properties == keys written there and required == keys always written that serde cannot read without. distinct_nontrivial = distinct (shape, attribute set)."),
    quick=[R("c16", "rel", 640, shards=8, external="c16")],
    thorough=[R("c16", "rel", 9_600, shards=16, external="c16")],
    floors={"quick": {"evaluations": 600, "distinct": 250, "types_judged": 600, "instances_validated": 6_000, "requiredness_compared": 1_500, "object_schema_nodes_reached": 800,
                      "shape:struct": 100, "shape:enum_mixed": 60, "shape:enum_unit": 40, "shape:tuple": 20, "shape:newtype": 20, "attr:f:flatten": 10, "attr:tagging:internal": 8,
                      "attr:tagging:adjacent": 8, "attr:tagging:untagged": 8, "attr:tagging:external": 8},
            "thorough": {"evaluations": 9_000, "types_judged": 9_000, "instances_validated": 90_000}},
    wall_limit={"quick": 900, "thorough": 3000},
    assumptions=["serde_json is the wire format; the schema language is read as JSON Schema 2020-12 (OpenAPI 3.1), so `nullable` has no effect",
                 "requiredness is compared only for keys some instance wrote and whose instance serde reads back (types with skip_serializing fields without default do not round-trip)",
                 "generic types, lifetimes, serde(with/from/into/other/untagged variants) and #[openapi(schema_with)] are not in the grammar"],
)
META["C16"] = dict(
    engine="gen/c16gen.py (program generator) + cargo build of the generated crates against /repo + oracle/schema_judge.py",
    technique="runtime monitoring of generated programs: the real derive macro is expanded by rustc on generated type definitions, the resulting schema() and serde's real output for generated values are observed at run time and compared by an independent Python judge (jsonschema 2020-12 validation, closed-world key check, requiredness probes through serde_json::from_value)",
    level_text="The derive runs on hundreds to thousands of generated type definitions; what it produces is compared with what serde actually writes and reads for generated values.",
    level_note="Sampled type definitions from a fixed grammar; trusts rustc, serde_json, the jsonschema package and the judge.",
    design_ref="DESIGN.md §5 C16",
)


# Decision-tape fuzzing (thorough tier): libFuzzer mutates the *decisions* of an engine's own generator (harness/src/rng.rs: while the tape
# lasts every draw of the case's generator is read from it), the engine's own oracle judges; artifacts and corpus are replayed through the
# ordinary worker. See DESIGN.md section 0.
TAPE_NOTE = (" Thorough tier in addition: coverage-guided decision tapes - libFuzzer (harness/fuzz, target `cases`) mutates the byte tape from which this engine's generator draws its "
             "decisions, one generated case per execution, judged by the same oracle; every artifact and the whole corpus are replayed through the ordinary release worker.")
for _pid, _spec, _secs in [("C01", "c01,small=1", 60), ("C03", "c03", 90), ("C04", "c04,small=1", 60), ("C05", "c05", 60), ("C06", "c05,mode=c06", 60), ("C07", "c07", 60), ("C09", "c09", 60),
                           ("C10", "c10", 60), ("C11", "c11", 60), ("C13", "c13", 60), ("C14", "c14,small=1", 60), ("C17", "c17", 60)]:
    PLANS[_pid]["thorough"] = list(PLANS[_pid]["thorough"]) + [R("fuzz", "rel", _secs, external="fuzz", flags={"target": "cases", "engine": _spec, "max_len": 1024})]
    PLANS[_pid]["rule"] = PLANS[_pid]["rule"] + TAPE_NOTE
    META[_pid]["technique"] = META[_pid]["technique"] + "; thorough tier adds coverage-guided workload generation (libFuzzer over the generator's decision tape) feeding the same monitors"
for _pid in ("C02", "C08"):
    META[_pid]["technique"] = META[_pid]["technique"] + "; thorough tier adds coverage-guided workload generation (libFuzzer) feeding the same monitors"

# valgrind memcheck on the plain release binary ("vg" variant of ./check): uninitialised-value use, invalid reads/writes and bad frees in
# optimised code, on workloads about 100x larger than Miri's. (quick budget, thorough budget, flags); budgets are cases over 16 processes,
# sized from measurements for ~5 s (quick) and ~60 s (thorough) of wall time.
VG_NOTE = " In addition the release worker runs the same generator and oracle under valgrind memcheck (variant `vg`): the first memcheck report ends the worker and is attributed to the journalled case."
for _pid, _eng, _q, _t, _fl in [("C01", "c01", 128, 1_600, {}), ("C02", "c02", 16_000, 200_000, {}), ("C03", "c03", 32_000, 400_000, {}), ("C04", "c04", 128, 1_600, {}),
                                ("C05", "c05", 2_000, 24_000, {}), ("C06", "c05", 2_400, 30_000, {"mode": "c06"}), ("C07", "c07", 640, 8_000, {}), ("C08", "c08", 3_200, 60_000, {}),
                                ("C09", "c09", 3_200, 40_000, {}), ("C10", "c10", 6_400, 80_000, {}), ("C11", "c11", 6_400, 80_000, {}), ("C13", "c13", 1_600, 20_000, {}),
                                ("C14", "c14", 256, 3_200, {}), ("C17", "c17", 3_200, 40_000, {}), ("C19", "c19", 320, 4_000, {}), ("C20", "c20", 1, 1, {"small": 1}),
                                ("C12", "c12", None, 48, {})]:
    if _q is not None:
        PLANS[_pid]["quick"] = list(PLANS[_pid]["quick"]) + [R(_eng, "vg", _q, flags=dict(_fl))]
    PLANS[_pid]["thorough"] = list(PLANS[_pid]["thorough"]) + [R(_eng, "vg", _t, flags=dict(_fl))]
    PLANS[_pid]["rule"] = PLANS[_pid]["rule"] + VG_NOTE
    META[_pid]["technique"] = META[_pid]["technique"] + "; valgrind memcheck on the release build of the same workload"
