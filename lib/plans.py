"""Per-property run plans for ./check.  A run = one engine under one build variant, sharded over worker processes."""

EXTERNAL = {}


def R(engine, variant, budget, shards=16, flags=None, features=None, **kw):
    d = dict(engine=engine, variant=variant, budget=budget, shards=shards, flags=flags or {}, features=features or [])
    d.update(kw)
    return d


PLANS = {}

PLANS["C20"] = dict(
    level="exploration",
    exhaustive={"quick": True, "thorough": True},
    rule=("imf_fixdate: every day number 0..2932896 (1970-01-01..9999-12-31) at one seed-chosen second of day, every second of day on 24 special days "
          "(leap days, century non-leap, 400-year leap, year ends), random full timestamps and both bounds, each compared with an independent civil-from-days "
          "reference; itoa/hexized: every n < 10^6, 10^k and 16^k +-1, usize::MAX, random widths, against std formatting. distinct_nontrivial = distinct "
          "(year mod 400, month, weekday) triples observed."),
    quick=[R("c20", "rel", 200_000), R("c20", "miri", 1, shards=4, flags={"small": 8})],
    thorough=[R("c20", "rel", 2_000_000), R("c20", "dbg", 500_000), R("c20", "asan", 500_000), R("c20", "miri", 1, shards=16, flags={"small": 1})],
    floors={"quick": {"evaluations": 6_000_000, "days_enumerated_in_shard": 2_932_897, "distinct": 30_000},
            "thorough": {"evaluations": 12_000_000, "days_enumerated_in_shard": 2_932_897 * 3, "distinct": 30_000}},
    assumptions=["reference: Hinnant civil_from_days written from the paper + weekday=(days+4) mod 7; std formatting for numbers",
                 "64-bit usize", "Miri runs a strided subset (every 997th day, every 1201st second, n<3000)"],
)

# ---------------------------------------------------------------------------------------------
# manifest metadata per claimed property
META = {}
NOT_CLAIMED = {}

META["C20"] = dict(
    engine="vh c20",
    technique="runtime monitoring: exhaustive enumeration of inputs to the real formatters against an independent reference; Miri on a strided subset; ASan/debug-assert builds in thorough",
    level_text=("Every day of the supported range and every n < 10^6 is executed through the real imf_fixdate/itoa/hexized and compared with an independent "
                "reference, so a wrong table entry or digit is observed, not sampled; seconds-of-day are exhaustive on 24 special days and random elsewhere."),
    level_note="Trusts the reference (Hinnant civil_from_days, std formatting). Full 64-bit range of itoa/hexized is sampled, not enumerated.",
    design_ref="DESIGN.md §5 C20",
)
