#!/usr/bin/env python3
"""Rewrites the table of repaired defects in DESIGN.md from known_findings.json."""
import os, json
ROOT = os.path.dirname(os.path.dirname(os.path.abspath(__file__)))
d = json.load(open(os.path.join(ROOT, "known_findings.json")))
rows = ["| id | commit | what failed before |", "|---|---|---|"]
for f in sorted((f for f in d["findings"] if f.get("status") == "fixed"), key=lambda f: f["id"]):
    what = f["what"]
    what = what.split(f["commit"], 1)[1].strip() if f["commit"] in what else what
    rows.append("| %s | `%s` | %s |" % (f["id"], f["commit"], what.replace("|", "/")[:340]))
p = os.path.join(ROOT, "DESIGN.md")
s = open(p).read()
a = s.index("<!-- FIXED-TABLE-BEGIN -->") + len("<!-- FIXED-TABLE-BEGIN -->")
b = s.index("<!-- FIXED-TABLE-END -->")
open(p, "w").write(s[:a] + "\n" + "\n".join(rows) + "\n" + s[b:])
print(len(rows) - 2, "rows")
