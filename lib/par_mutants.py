#!/usr/bin/env python3
"""Runs seeded changes against their checks IN PARALLEL without touching /repo or /verif:
every job gets a private mount + network namespace (`unshare -m -n`) in which /repo and /verif are
overlay mounts (lower = the real directory, upper = a scratch directory under /tmp/ns/<job>),
the patch is applied there, the pinned test suite and `./check <PID> --tier <tier>` run there, and
the outcome is copied back into seeded/<id>/meta.json. Nothing a registered check needs lives
here; this is tooling for the sensitivity campaign only (DESIGN.md section 6).

usage: lib/par_mutants.py [-j N] [--tier quick|thorough] [--no-suite] [--src DIR] <id>[:<PID>] ...
   <id>   a directory name under seeded/ (or, with --src, under DIR: used for candidates not yet kept)
Do not edit /verif/harness, /verif/check or /verif/lib/plans.py while jobs are building."""
import os, sys, json, re, subprocess, time, shutil, concurrent.futures as cf

ROOT = os.path.dirname(os.path.dirname(os.path.abspath(__file__)))
BASE = "cd /repo && cargo nextest run --workspace --no-fail-fast --tool-config-file pb:/w/lib/nextest.toml --profile pb --test-threads 8 --offline"
BASECMD = BASE


SNAP = ""


def snapshot():
    """freeze the sources of the machinery (not the build output) so that edits made in /verif while jobs are queued do not leak into them"""
    global SNAP
    SNAP = "/tmp/ns/_snap"
    shutil.rmtree(SNAP, ignore_errors=True)
    os.makedirs(SNAP + "/harness")
    for rel in ("check", "lib", "oracle", "gen", "known_findings.json", "setup", "harness/src", "harness/fuzz", "harness/Cargo.toml", "harness/Cargo.lock"):
        src = os.path.join(ROOT, rel)
        if os.path.isdir(src):
            subprocess.run(["cp", "-a", src, os.path.join(SNAP, rel)], check=True)
        elif os.path.exists(src):
            subprocess.run(["cp", "-a", src, os.path.join(SNAP, rel)], check=True)
    # the build output of the quick-tier variants, too: a lower layer that changes under a mounted overlay (a build in the real /verif
    # while jobs run) corrupts incremental state in the jobs ("undefined hidden symbol" at link time)
    for t in ("target-rel", "target-dbg", "target-miri", "target-rel-openapi", "target-c16"):
        if os.path.isdir(os.path.join(ROOT, "harness", t)):
            subprocess.run(["cp", "-a", os.path.join(ROOT, "harness", t), os.path.join(SNAP, "harness", t)], check=True)
    for d in ("harness/fuzz/target", "harness/fuzz/corpus", "harness/fuzz/artifacts"):
        shutil.rmtree(os.path.join(SNAP, d), ignore_errors=True)


def section(text, title):
    m = re.search(r"^## " + re.escape(title) + r".*?\n(.*?)(?=^## |\Z)", text, re.S | re.M)
    return m.group(1).strip() if m else ""


def run(job, src, tier, suite, seed):
    name, pid = job
    sd = os.path.join(src, name)
    ns = f"/tmp/ns/{name}"
    shutil.rmtree(ns, ignore_errors=True)
    for d in ("ru", "rw", "vu", "vw"):
        os.makedirs(f"{ns}/{d}")
    shutil.copy(f"{sd}/patch.diff", f"{ns}/patch.diff")
    script = f"""
ip link set lo up
mount -t overlay overlay -o lowerdir=/repo,upperdir={ns}/ru,workdir={ns}/rw /repo || exit 90
mount -t overlay overlay -o lowerdir={SNAP + ":" if SNAP else ""}/verif,upperdir={ns}/vu,workdir={ns}/vw /verif || exit 90
cd /repo && git apply {ns}/patch.diff || exit 91
if [ {1 if suite else 0} = 1 ]; then ( {BASECMD} ) > {ns}/suite.out 2>&1; echo $? > {ns}/suite.rc; fi
cd /verif && VERIF_SEED={seed} ./check {pid} --tier {tier} > {ns}/check.out 2> {ns}/check.err; echo $? > {ns}/check.rc
"""
    t0 = time.time()
    p = subprocess.run(["unshare", "-m", "-n", "sh", "-c", script], capture_output=True, text=True)
    wall = round(time.time() - t0, 1)
    rd = lambda f: open(f"{ns}/{f}").read() if os.path.exists(f"{ns}/{f}") else ""
    notes = open(f"{sd}/NOTES.md").read() if os.path.exists(f"{sd}/NOTES.md") else ""
    meta = {"id": name, "property": pid, "title": (notes.splitlines() or [""])[0].lstrip("# ").strip(),
            "needs_to_manifest": section(notes, "What is needed for it to manifest")[:1500],
            "repo_head": subprocess.run("git -C /repo rev-parse --short HEAD", shell=True, capture_output=True, text=True).stdout.strip(),
            "tier": tier, "seed": seed, "runner": "lib/par_mutants.py (overlay namespace)"}
    if p.returncode in (90, 91):
        meta["applies"] = p.returncode != 91
        meta["result"] = "patch does not apply" if p.returncode == 91 else "overlay mount failed: " + p.stderr[:200]
    else:
        meta["applies"] = True
        if suite:
            tail = rd("suite.out").strip().splitlines()
            summ = [l for l in tail if "Summary" in l or "tests run" in l]
            meta["existing_tests_with_change"] = {"command": BASECMD, "exit": int(rd("suite.rc") or -1),
                                                  "summary": (summ[-1].strip() if summ else (tail[-1] if tail else ""))}
        out, err, rc = rd("check.out"), rd("check.err"), int(rd("check.rc") or -1)
        lines = [l for l in out.splitlines() if re.match(r"^(VIOLATION|KNOWN-FINDING|INCONCLUSIVE|HELD)", l)]
        sigs = re.findall(r"violation sig=([^:]+(?::[^ ]+)?): ", err)
        meta["check"] = {"command": f"./check {pid} --tier {tier}", "exit": rc, "wall_s": wall,
                         "violation_lines": len([l for l in lines if l.startswith("VIOLATION")]),
                         "signatures": sorted(set(sigs))[:12],
                         "first_violation": next((l for l in err.splitlines() if "violation sig=" in l), "")[:400],
                         "inconclusive": [l for l in lines if l.startswith("INCONCLUSIVE")][:2]}
        meta["caught"] = rc == 1 and any(l.startswith("VIOLATION") for l in lines)
        meta["result"] = "caught" if meta["caught"] else ("not caught (check exit %d)" % rc)
        # keep the evidence the mutated run wrote, for inspection
        ev = f"{ns}/vu/evidence/{pid}.json"
        if os.path.exists(ev):
            shutil.copy(ev, f"{ns}/evidence.json")
    json.dump(meta, open(f"{ns}/meta.json", "w"), indent=1, ensure_ascii=False)
    for d in ("ru", "rw", "vu", "vw"):
        shutil.rmtree(f"{ns}/{d}", ignore_errors=True)
    return meta


def main():
    a = sys.argv[1:]
    j, tier, suite, src, seed = 3, "quick", True, os.path.join(ROOT, "seeded"), os.environ.get("VERIF_SEED", "1")
    jobs = []
    while a:
        x = a.pop(0)
        if x == "-j": j = int(a.pop(0))
        elif x == "--tier": tier = a.pop(0)
        elif x == "--no-suite": suite = False
        elif x == "--src": src = a.pop(0)
        elif x == "--snap": snapshot()
        elif x == "--snap-keep":
            # reuse the source snapshot taken earlier (blind runs against the machinery as it was then); add the build output if missing
            global SNAP
            SNAP = "/tmp/ns/_snap"
            for t in ("target-rel", "target-dbg", "target-miri", "target-rel-openapi", "target-c16"):
                if os.path.isdir(os.path.join(ROOT, "harness", t)) and not os.path.isdir(os.path.join(SNAP, "harness", t)):
                    subprocess.run(["cp", "-a", os.path.join(ROOT, "harness", t), os.path.join(SNAP, "harness", t)], check=True)
        else:
            n, _, p = x.partition(":")
            jobs.append((n, p or n.split("-")[0]))
    with cf.ThreadPoolExecutor(j) as ex:
        futs = {ex.submit(run, jb, src, tier, suite, seed): jb for jb in jobs}
        for f in cf.as_completed(futs):
            m = f.result()
            dst = os.path.join(src, m["id"], "meta.json")
            old = {}
            if os.path.exists(dst):
                try: old = json.load(open(dst))
                except ValueError: pass
            for k in ("note", "confirmed_by_me", "first_blind_run", "files", "rebased", "existing_tests_with_change"):
                if k in old and k not in m: m[k] = old[k]
            json.dump(m, open(dst, "w"), indent=1, ensure_ascii=False)
            print(m["id"], "|", m["result"], "|", m.get("check", {}).get("signatures", [])[:3], "|",
                  m.get("existing_tests_with_change", {}).get("summary", ""), "|", m.get("check", {}).get("inconclusive", ""), flush=True)


if __name__ == "__main__":
    sys.exit(main())
