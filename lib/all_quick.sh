#!/bin/sh
# run every claimed check's quick tier on the current tree; print one line per check
cd /verif
for id in $(python3 -c "import json;print(' '.join(c['property_id'] for c in json.load(open('MANIFEST.json'))['checks']))"); do
  out=$(VERIF_SEED=${VERIF_SEED:-1} ./check $id --tier quick 2>/dev/null | grep -E "^(VIOLATION|HELD|INCONCLUSIVE)" | head -3 | tr '\n' ' ')
  echo "$id: $out" | cut -c1-300
done
