#!/bin/sh
# usage: lib/try_mutant.sh <seeded-dir> <PROPERTY> [tier]   -- applies the patch to /repo, runs the check, always undoes the patch
d="$1"; pid="$2"; tier="${3:-quick}"
cd /verif
git -C /repo diff --quiet || { echo "/repo is dirty, refusing"; exit 3; }
git -C /repo apply "$(realpath "$d")/patch.diff" || { echo "patch does not apply"; exit 3; }
./check "$pid" --tier "$tier" > /tmp/try_mutant.$$.out 2>/tmp/try_mutant.$$.err; rc=$?
git -C /repo checkout -- . 
grep -E "^(VIOLATION|KNOWN-FINDING|INCONCLUSIVE|HELD)" /tmp/try_mutant.$$.out | head -8
grep -E "violation sig" /tmp/try_mutant.$$.err | head -5
rm -f /tmp/try_mutant.$$.out /tmp/try_mutant.$$.err
echo "rc=$rc ($d on $pid/$tier)"
# restore evidence of the unchanged tree
git -C /verif checkout -- evidence/$pid.json 2>/dev/null
exit 0
