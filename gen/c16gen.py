#!/usr/bin/env python3
"""Seeded generator of Rust programs for C16: type definitions deriving serde's traits and ohkami's openapi::Schema over the
supported attribute grammar, with literal instances. Emits a cargo project; its binary prints one JSON line per type:
{id, schema, instances, probes}.  usage: c16gen.py --seed S --n N --out DIR"""
import sys, os, json, random, argparse

CFGA = 'cfg_attr(feature = "schema", '
CASES = ["lowercase", "UPPERCASE", "PascalCase", "camelCase", "snake_case", "SCREAMING_SNAKE_CASE", "kebab-case", "SCREAMING-KEBAB-CASE"]
# identifiers serde's case rules treat specially are in: a leading underscore (camelCase lower-cases the first character *after* PascalCasing,
# so `_id` -> `id`), a doubled underscore, a trailing underscore
FIELD_NAMES = ["a", "user_name", "x1", "a_b_c", "http_url2", "id", "is_active", "created_at", "n", "first_name_2", "url", "v2_api", "_uid", "_created_on", "a__b", "kind_"]
SKIP_DEFAULT = {"u8": "0", "String": "String::new()", "bool": "false"}
VARIANT_NAMES = ["A", "HTTPError", "IoV2", "UserCreated", "Ok", "NotFound", "B2", "XmlHttpRequest"]
# none of these can coincide with a case conversion of a FIELD_NAMES entry (two fields with one wire name are a generator fault)
RENAMES = ["user-name-r", "fullName", "IDENT", "xr", "type", "2fa", "with space", "snake_name", "Kebab-Case-Name", "ünï"]


class G:
    def __init__(self, seed):
        self.r = random.Random(seed)

    def pick(self, xs):
        return xs[self.r.randrange(len(xs))]

    def chance(self, a, b):
        return self.r.randrange(b) < a


def scalar_types():
    # (rust type, kind)
    return [("bool", "bool"), ("u8", "int"), ("u32", "int"), ("i64", "int"), ("f64", "float"), ("String", "string")]


def value_expr(g, ty, helpers, full):
    """a Rust expression of type `ty`; `full`: populate optionals / vectors"""
    if ty == "bool": return g.pick(["true", "false"])
    # one value in three sits at an end of the type's range or next to a narrower type's end (a schema may bound what serde does not)
    if ty == "u8": return g.pick(["0", "255", "127", "128"]) if g.chance(1, 3) else str(g.r.randrange(256))
    if ty == "u32": return g.pick(["0", "4294967295", "2147483647", "2147483648", "65535", "65536"]) if g.chance(1, 3) else str(g.r.randrange(100000))
    if ty == "i64": return g.pick(["i64::MIN", "i64::MAX", "-2147483649", "2147483648", "-1", "0"]) if g.chance(1, 3) else str(g.r.randrange(-1000, 1000))
    if ty == "f64": return g.pick(["0.5", "1.0", "-2.25", "1e3"])
    if ty == "String": return g.pick(['"x".to_string()', 'String::new()', '"hello world".to_string()', '"狼".to_string()'])
    if ty.startswith("Option<"):
        inner = ty[7:-1]
        if full == "empty": return "None"
        return f"Some({value_expr(g, inner, helpers, full)})" if full is True or g.chance(1, 2) else "None"
    if ty.startswith("Vec<"):
        inner = ty[4:-1]
        n = 0 if full == "empty" else (g.r.randrange(1, 3) if full is True else g.r.randrange(0, 3))
        return "vec![" + ", ".join(value_expr(g, inner, helpers, full) for _ in range(n)) + "]"
    if ty in helpers:
        return helpers[ty]["value"](g, full)
    raise ValueError(ty)


def gen_helper_struct(g, name):
    # declaration order is deliberately not the alphabetical order of the wire names (a schema's property map is sorted, `required` is not)
    fields = [("q", "String"), ("p", "u32")] + ([("r", "Option<bool>")] if g.chance(1, 2) else []) + ([("a0", "bool")] if g.chance(1, 3) else [])
    src = f"#[derive(Debug, Clone, PartialEq, Default, Serialize, Deserialize)]\n#[{CFGA}derive(Schema))]\npub struct {name} {{ " + ", ".join(f"pub {f}: {t}" for f, t in fields) + " }\n"

    def value(g, full):
        return f"{name} {{ " + ", ".join(f"{f}: {value_expr(g, t, {}, full)}" for f, t in fields) + " }"
    return {"src": src, "value": value, "kind": "struct"}


def gen_helper_enum(g, name):
    vs = ["Red", "DarkGreen", "Blue2"]
    src = f"#[derive(Debug, Clone, PartialEq, Default, Serialize, Deserialize)]\n#[{CFGA}derive(Schema))]\npub enum {name} {{ #[default] " + ", ".join(vs) + " }\n"

    def value(g, full):
        return f"{name}::{g.pick(vs)}"
    return {"src": src, "value": value, "kind": "enum"}


def gen_named_fields(g, helpers, attrs_vec, allow_flatten=True, for_variant=False):
    """returns (field source lines, value function, uses_default_fn)"""
    n = g.r.randrange(1, 6)
    names = g.r.sample(FIELD_NAMES, n)
    fields = []
    used_renames = set()
    flattened = False
    for nm in names:
        kind = g.r.randrange(10)
        if kind <= 3:
            ty = g.pick(scalar_types())[0]
        elif kind == 4:
            ty = "Option<" + g.pick(scalar_types())[0] + ">"
        elif kind == 5:
            ty = "Vec<" + g.pick(["String", "u32", "bool"]) + ">"
        elif kind == 6:
            ty = "N"
        elif kind == 7:
            ty = "Option<N>"
        elif kind == 8:
            ty = "E"
        else:
            ty = "Vec<N>"
        fattrs = []
        a = g.r.randrange(14)
        if ty == "N" and allow_flatten and not flattened and g.chance(1, 3):
            fattrs.append("flatten"); attrs_vec.append("f:flatten"); flattened = True
        elif ty == "u32" and g.chance(1, 4):
            fattrs.append('default = "crate::probe::d_u32"'); attrs_vec.append("f:default_fn")
        elif a == 0:
            rn = g.pick(RENAMES)
            if rn not in used_renames:
                used_renames.add(rn)
                fattrs.append(f'rename = "{rn}"'); attrs_vec.append("f:rename:" + ("ident" if rn.isidentifier() and rn.isascii() else "nonident"))
        elif a == 1:
            fattrs.append('alias = "alt_' + nm + '"'); attrs_vec.append("f:alias")
        elif a == 9:
            fattrs.append('rename(serialize = "ser_' + nm + '")'); attrs_vec.append("f:rename_serialize_only")
        elif a == 10:
            fattrs.append('rename(serialize = "both_' + nm + '", deserialize = "both_' + nm + '")'); attrs_vec.append("f:rename_both")
        elif a == 2:
            fattrs.append("default"); attrs_vec.append("f:default")
        elif a == 3 and not for_variant:
            fattrs.append("skip"); attrs_vec.append("f:skip")
        elif a == 4:
            fattrs.append("skip_serializing"); attrs_vec.append("f:skip_serializing")
        elif a == 5:
            fattrs.append("skip_deserializing"); attrs_vec.append("f:skip_deserializing")
        elif a == 6 and ty.startswith("Option<"):
            fattrs.append('skip_serializing_if = "Option::is_none"'); attrs_vec.append("f:skip_if_none")
            if g.chance(1, 2): fattrs.append("default")
        elif a == 7 and ty.startswith("Vec<"):
            fattrs.append('skip_serializing_if = "Vec::is_empty"'); attrs_vec.append("f:skip_if_empty")
            if g.chance(1, 2): fattrs.append("default"); attrs_vec.append("f:skip_if_empty+default")
        elif a == 8 and ty == "N" and allow_flatten and not flattened:
            fattrs.append("flatten"); attrs_vec.append("f:flatten"); flattened = True
        if ty.startswith("Option<"): attrs_vec.append("t:option")
        if "N" in ty: attrs_vec.append("t:nested")
        fields.append((nm, ty, fattrs))
    lines = []
    for nm, ty, fa in fields:
        pre = f"#[serde({', '.join(fa)})] " if fa else ""
        lines.append(f"    {pre}{'pub ' if not for_variant else ''}{nm}: {ty},")

    def value(g, full):
        return "{ " + ", ".join(f"{nm}: {value_expr(g, ty, helpers, full)}" for nm, ty, _ in fields) + " }"
    return lines, value, fields


RUN_TAIL = r'''    let values: Vec<serde_json::Value> = instances.iter().map(|i| serde_json::to_value(i).expect("serialize")).collect();
    let probes: Vec<serde_json::Value> = values.iter().enumerate().flat_map(|(n, v)| crate::probe::probes::<T>(n, v)).collect();
    #[cfg(feature = "schema")]
    let schema = {
        let s: ohkami::openapi::schema::SchemaRef = <T as Schema>::schema().into();
        serde_json::to_value(&s).expect("schema serialises")
    };
    #[cfg(not(feature = "schema"))]
    let schema = serde_json::Value::Null;
    println!("{}", serde_json::json!({"id": @IDX@, "schema": schema, "instances": values, "probes": probes}));
}
'''

# Hand-written witnesses of findings (fixed or known); they take the first type ids of every run that starts at 0, whatever the seed.
WITNESSES = [
    ("X1:kebab-case rename_all on a struct", ["w:X1", "c:rename_all:kebab-case"], "struct",
     '#[serde(rename_all = "kebab-case")]\npub struct T { pub user_name: String, pub http_url2: u32 }\n',
     ['T { user_name: "x".to_string(), http_url2: 1 }']),
    ("X1:rename to a non-identifier", ["w:X1", "f:rename:nonident"], "struct",
     'pub struct T { #[serde(rename = "2fa")] pub a: bool, #[serde(rename = "with space")] pub b: u8 }\n',
     ['T { a: true, b: 2 }']),
    ("X1:snake_case variants keep their letters", ["w:X1", "c:rename_all_variants:snake_case"], "enum_unit",
     '#[serde(rename_all = "snake_case")]\npub enum T { HTTPError, UserCreated, IoV2 }\n',
     ['T::HTTPError', 'T::UserCreated', 'T::IoV2']),
    ("X1:PascalCase field with doubled underscore", ["w:X1", "c:rename_all:PascalCase"], "struct",
     '#[serde(rename_all = "PascalCase")]\npub struct T { pub a__b: u8, pub user_name: u8 }\n',
     ['T { a__b: 1, user_name: 2 }']),
    ("X1:enum rename_all does not rename variant fields", ["w:X1", "c:rename_all_variants:camelCase", "v:struct"], "enum_mixed",
     '#[serde(rename_all = "camelCase")]\npub enum T { UserCreated { user_name: String }, Gone(u8) }\n',
     ['T::UserCreated { user_name: "x".to_string() }', 'T::Gone(1)']),
    ("X2:internal tag is a constant string", ["w:X2", "tagging:internal"], "enum_mixed",
     '#[serde(tag = "type")]\npub enum T { A { x: u8 }, B(N), C }\n',
     ['T::A { x: 1 }', 'T::B(N::default())', 'T::C']),
    ("X2:adjacent tag, unit variant has no content", ["w:X2", "tagging:adjacent"], "enum_mixed",
     '#[serde(tag = "t", content = "c")]\npub enum T { A { x: u8 }, B(u8, String), C }\n',
     ['T::A { x: 1 }', 'T::B(1, "x".to_string())', 'T::C']),
    ("X2:unit variant of an externally tagged mixed enum is a string", ["w:X2", "tagging:external", "v:unit-in-mixed"], "enum_mixed",
     'pub enum T { A { x: u8 }, C }\n',
     ['T::A { x: 1 }', 'T::C']),
    ("X3:tuple struct with repeated and overlapping element types", ["w:X3", "tuple:3"], "tuple",
     'pub struct T(pub f64, pub f64, pub u8);\n',
     ['T(0.5, 1.0, 3)']),
    ("X3:untagged variants that overlap", ["w:X3", "tagging:untagged"], "enum_mixed",
     '#[serde(untagged)]\npub enum T { A { p: u32 }, B(N) }\n',
     ['T::A { p: 1 }', 'T::B(N::default())']),
    ("X4:skip_deserializing is written", ["w:X4", "f:skip_deserializing"], "struct",
     'pub struct T { pub a: u8, #[serde(skip_deserializing)] pub b: u8 }\n',
     ['T { a: 1, b: 2 }']),
    ("X4:container default", ["w:X4", "c:default"], "struct",
     '#[serde(default)]\npub struct T { pub a: u8, pub b: String }\nimpl Default for T { fn default() -> Self { T { a: 9, b: String::new() } } }\n',
     ['T { a: 1, b: "x".to_string() }']),
    ("X5:flatten", ["w:X5", "f:flatten"], "struct",
     'pub struct T { pub a: u8, #[serde(flatten)] pub n: N }\n',
     ['T { a: 1, n: N::default() }']),
    ("X5:default = path", ["w:X5", "f:default_fn"], "struct",
     'pub struct T { #[serde(default = "crate::probe::d_u32")] pub a: u32, pub b: u8 }\n',
     ['T { a: 1, b: 2 }']),
    ("X5:newtype of Option", ["w:X5", "newtype:Option"], "newtype",
     'pub struct T(pub Option<String>);\n',
     ['T(Some("x".to_string()))']),
    ("X5:unit-only enum, internally tagged", ["w:X5", "tagging:internal"], "enum_mixed",
     '#[serde(tag = "type")]\npub enum T { A, B }\n',
     ['T::A', 'T::B']),
    ("X6:two serde attributes on one variant", ["w:X6", "v:rename", "v:rename_all:camelCase"], "enum_mixed",
     'pub enum T { #[serde(rename = "renamed")] #[serde(rename_all = "camelCase")] A { user_name: u8 }, B(u8) }\n',
     ['T::A { user_name: 1 }', 'T::B(2)']),
    ("X7:rename(serialize = .., deserialize = ..)", ["w:X7", "f:rename_both"], "struct",
     'pub struct T { #[serde(rename(serialize = "n", deserialize = "n"))] pub name: String }\n',
     ['T { name: "x".to_string() }']),
    ("X8:five data-carrying variants / five-element tuple", ["w:X8", "tagging:external"], "enum_mixed",
     'pub enum T { A(u8), B(u8), C(u8), D(u8), E5(u8, String, bool, u8, u8) }\n',
     ['T::A(1)', 'T::D(4)', 'T::E5(1, "x".to_string(), true, 2, 3)']),
    ("X9:transparent struct", ["w:X9", "transparent:u32"], "transparent",
     '#[serde(transparent)]\npub struct T { pub inner: u32 }\n',
     ['T { inner: 7 }']),
    ("X10:empty tuple variant and empty struct variant", ["w:X10", "tagging:external", "v:empty-tuple", "v:empty-struct"], "enum_mixed",
     'pub enum T { A(), B {}, C(u8) }\n',
     ['T::A()', 'T::B {}', 'T::C(1)']),
    ("m9:tuple struct with one element left after skipping", ["w:m9", "tuple:2", "tuple:skipped-elements:1-left"], "tuple",
     'pub struct T(pub u32, #[serde(skip)] pub u8);\n',
     ['T(7, 0)']),
    ("m9:tuple variant with one element left after skipping", ["w:m9", "tagging:external", "v:tuple:skipped-element"], "enum_mixed",
     'pub enum T { Label(String, #[serde(skip)] u8), Two(u8, bool) }\n',
     ['T::Label("x".into(), 0)', 'T::Two(1, true)']),
    ("F1:Option::None is written as null", ["w:F1", "t:option"], "struct",
     'pub struct T { pub a: Option<u8> }\n',
     ['T { a: Some(1) }', 'T { a: None }']),
    ("F2:unit struct is written as null", ["w:F2", "unit-struct"], "unit",
     'pub struct T;\n',
     ['T']),
]


def gen_witness(idx):
    title, attrs, shape, src, insts = WITNESSES[idx]
    g = G(0)
    helpers = {"N": gen_helper_struct(g, "N"), "E": gen_helper_enum(g, "E")}
    head = f"#[derive(Debug, Clone, PartialEq, Serialize, Deserialize)]\n#[{CFGA}derive(Schema))]\n"
    body = f"""// witness {idx}: {title}
#![allow(dead_code, non_snake_case, unused_imports)]
use ohkami::serde::{{Serialize, Deserialize}};
#[cfg(feature = "schema")] use ohkami::openapi::Schema;

{helpers['N']['src']}
{helpers['E']['src']}
{head}{src}
pub fn run() {{
    let instances: Vec<T> = vec![
        {(',' + chr(10) + '        ').join(insts)}
    ];
""" + RUN_TAIL.replace("@IDX@", str(idx))
    return body, sorted(attrs), shape


def gen_type(g, idx):
    attrs = []
    helpers = {"N": gen_helper_struct(g, "N"), "E": gen_helper_enum(g, "E")}
    shape = g.pick(["struct", "struct", "struct", "newtype", "tuple", "unit", "enum_unit", "enum_unit", "enum_mixed", "enum_mixed", "enum_mixed", "transparent"])
    cattrs = []
    derive_default = False
    src = ""
    if shape == "struct":
        if g.chance(1, 2):
            c = g.pick(CASES); cattrs.append(f'rename_all = "{c}"'); attrs.append("c:rename_all:" + c)
        if g.chance(1, 8):
            cattrs.append('rename = "Renamed"'); attrs.append("c:rename")
        if g.chance(1, 8):
            cattrs.append("default"); attrs.append("c:default"); derive_default = True
        if g.chance(1, 10):
            cattrs.append("deny_unknown_fields"); attrs.append("c:deny_unknown")
        lines, value, fields = gen_named_fields(g, helpers, attrs, allow_flatten="deny_unknown_fields" not in cattrs)
        src = "pub struct T {\n" + "\n".join(lines) + "\n}\n"
        inst = lambda g, full: "T " + value(g, full)
    elif shape == "transparent":
        ty = g.pick(["u32", "String", "N", "Vec<u32>", "bool", "E"])
        attrs.append("transparent:" + ty.split("<")[0])
        cattrs.append("transparent")
        if g.chance(1, 2):
            src = f"pub struct T {{ pub inner: {ty} }}\n"
            inst = lambda g, full: f"T {{ inner: {value_expr(g, ty, helpers, full)} }}"
        else:
            src = f"pub struct T(pub {ty});\n"
            inst = lambda g, full: f"T({value_expr(g, ty, helpers, full)})"
    elif shape == "newtype":
        ty = g.pick(["u32", "String", "N", "Vec<u32>", "Option<String>", "bool"])
        attrs.append("newtype:" + ty.split("<")[0])
        src = f"pub struct T(pub {ty});\n"
        inst = lambda g, full: f"T({value_expr(g, ty, helpers, full)})"
    elif shape == "tuple":
        tys = [g.pick(["u8", "String", "bool", "f64", "N"]) for _ in range(g.r.randrange(2, 4))]
        attrs.append("tuple:%d" % len(tys))
        # elements that are never written (`#[serde(skip)]`: a cache, a marker): serde still treats the type as a tuple of what is left,
        # whether that is several elements, one, or none
        skipped = [False] * len(tys)
        if g.chance(1, 4):
            for i in range(len(tys)):
                if g.chance(1, 2): skipped[i] = True; tys[i] = g.pick(["u8", "String", "bool"])
            if any(skipped): attrs.append("tuple:skipped-elements:%d-left" % skipped.count(False))
        src = "pub struct T(" + ", ".join(("#[serde(skip)] " if sk else "") + "pub " + t for t, sk in zip(tys, skipped)) + ");\n"
        inst = lambda g, full: "T(" + ", ".join((SKIP_DEFAULT[t] if sk else value_expr(g, t, helpers, full)) for t, sk in zip(tys, skipped)) + ")"
    elif shape == "unit":
        attrs.append("unit-struct")
        src = "pub struct T;\n"
        inst = lambda g, full: "T"
    elif shape == "enum_unit":
        vs = g.r.sample(VARIANT_NAMES, g.r.randrange(1, 5))
        if g.chance(2, 3):
            c = g.pick(CASES); cattrs.append(f'rename_all = "{c}"'); attrs.append("c:rename_all_variants:" + c)
        vlines = []
        for v in vs:
            if g.chance(1, 6):
                rn = g.pick(RENAMES); vlines.append(f'    #[serde(rename = "{rn}{v}")] {v},'); attrs.append("v:rename:" + ("ident" if rn.isidentifier() and rn.isascii() else "nonident"))
            else:
                vlines.append(f"    {v},")
        src = "pub enum T {\n" + "\n".join(vlines) + "\n}\n"
        inst_vs = list(vs)
        counter = {"i": 0}

        def inst(g, full):
            counter["i"] += 1
            return "T::" + inst_vs[counter["i"] % len(inst_vs)]
    else:
        tagging = g.pick(["external", "external", "internal", "adjacent", "untagged"])
        attrs.append("tagging:" + tagging)
        if tagging == "internal": cattrs.append('tag = "kind"')
        if tagging == "adjacent": cattrs += ['tag = "t"', 'content = "c"']
        if tagging == "untagged": cattrs.append("untagged")
        if g.chance(1, 2):
            c = g.pick(CASES); cattrs.append(f'rename_all = "{c}"'); attrs.append("c:rename_all_variants:" + c)
        if g.chance(1, 3):
            c = g.pick(CASES); cattrs.append(f'rename_all_fields = "{c}"'); attrs.append("c:rename_all_fields:" + c)
        vs = g.r.sample(VARIANT_NAMES, g.r.randrange(2, 5))
        vlines, makers = [], []
        for v in vs:
            k = g.pick(["unit", "newtype", "tuple", "struct", "struct"])
            # a variant with braces or parentheses and no field is not a unit variant: serde writes {} / [] for it
            if g.chance(1, 10) and tagging in ("external", "adjacent"): k = g.pick(["empty_struct", "empty_tuple"])
            if tagging == "internal" and k == "tuple": k = "struct"
            if tagging == "internal" and k == "newtype": k = "newtype_struct"
            pre = ""
            if g.chance(1, 6):
                rn = g.pick(["renamedVariant", "renamed-variant", "RV"]); pre = f'#[serde(rename = "{rn}{v}")] '; attrs.append("v:rename")
            if k == "struct" and g.chance(1, 4):
                c = g.pick(CASES); pre += f'#[serde(rename_all = "{c}")] '; attrs.append("v:rename_all:" + c)
            if len(makers) >= 1 and g.chance(1, 12):
                # a variant serde never writes or reads
                vlines.append(f"    #[serde(skip)] {pre}{v}Skipped(u8),"); attrs.append("v:skip")
            if k == "empty_struct":
                vlines.append(f"    {pre}{v} {{}},"); makers.append(lambda g, full, v=v: f"T::{v} {{}}"); attrs.append("v:empty-struct")
            elif k == "empty_tuple":
                vlines.append(f"    {pre}{v}(),"); makers.append(lambda g, full, v=v: f"T::{v}()"); attrs.append("v:empty-tuple")
            elif k == "unit":
                vlines.append(f"    {pre}{v},"); makers.append(lambda g, full, v=v: f"T::{v}"); attrs.append("v:unit-in-mixed")
            elif k == "newtype":
                ty = g.pick(["u32", "String", "N", "Vec<String>"])
                vlines.append(f"    {pre}{v}({ty}),"); makers.append(lambda g, full, v=v, ty=ty: f"T::{v}({value_expr(g, ty, helpers, full)})"); attrs.append("v:newtype")
            elif k == "newtype_struct":
                vlines.append(f"    {pre}{v}(N),"); makers.append(lambda g, full, v=v: f"T::{v}({value_expr(g, 'N', helpers, full)})"); attrs.append("v:newtype")
            elif k == "tuple":
                tys = [g.pick(["u8", "String", "bool"]) for _ in range(2)]
                sk = [False, False]
                if g.chance(1, 5): sk[g.r.randrange(2)] = True; attrs.append("v:tuple:skipped-element")
                vlines.append(f"    {pre}{v}({', '.join(('#[serde(skip)] ' if k_ else '') + t for t, k_ in zip(tys, sk))}),"); makers.append(lambda g, full, v=v, tys=tys, sk=sk: f"T::{v}(" + ", ".join((SKIP_DEFAULT[t] if k_ else value_expr(g, t, helpers, full)) for t, k_ in zip(tys, sk)) + ")"); attrs.append("v:tuple")
            else:
                lines, value, _ = gen_named_fields(g, helpers, attrs, allow_flatten=False, for_variant=True)
                vlines.append(f"    {pre}{v} {{\n    " + "\n    ".join(lines) + "\n    },"); makers.append(lambda g, full, v=v, value=value: f"T::{v} " + value(g, full)); attrs.append("v:struct")
        src = "pub enum T {\n" + "\n".join(vlines) + "\n}\n"
        counter = {"i": 0}

        def inst(g, full):
            counter["i"] += 1
            return makers[counter["i"] % len(makers)](g, full)
    component = g.chance(1, 5)
    if component: attrs.append("openapi:component")
    head = f"#[derive(Debug, Clone, PartialEq, Serialize, Deserialize" + (", Default" if derive_default else "") + f")]\n#[{CFGA}derive(Schema))]\n"
    if cattrs: head += f"#[serde({', '.join(cattrs)})]\n"
    if component: head += f"#[{CFGA}openapi(component))]\n"
    n_inst = 6
    # instance 0 populates every optional, the next round of instances leaves every optional empty
    insts = [inst(g, True)] + [inst(g, "empty") for _ in range(4)] + [inst(g, i % 2 == 0) for i in range(n_inst - 1)]
    body = f"""// generated type {idx}; attributes: {sorted(set(attrs))}
#![allow(dead_code, non_snake_case, unused_imports)]
use ohkami::serde::{{Serialize, Deserialize}};
#[cfg(feature = "schema")] use ohkami::openapi::Schema;

{helpers['N']['src']}
{helpers['E']['src']}
{head}{src}
pub fn run() {{
    let instances: Vec<T> = vec![
        {(',' + chr(10) + '        ').join(insts)}
    ];
""" + RUN_TAIL.replace("@IDX@", str(idx)) + """"""
    return body, sorted(set(attrs)), shape


PROBE_RS = r"""//! requiredness probes: remove each key of each object anywhere in a serialised value and ask serde whether it still reads
use serde_json::{Value, json};

fn objects(v: &Value, path: &mut Vec<Value>, out: &mut Vec<Vec<Value>>) {
    match v {
        Value::Object(o) => {
            out.push(path.clone());
            for (k, c) in o { path.push(json!(k)); objects(c, path, out); path.pop(); }
        }
        Value::Array(a) => for (i, c) in a.iter().enumerate() { path.push(json!(i)); objects(c, path, out); path.pop(); },
        _ => {}
    }
}

fn at<'v>(v: &'v mut Value, path: &[Value]) -> &'v mut Value {
    let mut cur = v;
    for p in path {
        cur = match p { Value::String(k) => cur.get_mut(k.as_str()).unwrap(), Value::Number(n) => cur.get_mut(n.as_u64().unwrap() as usize).unwrap(), _ => unreachable!() };
    }
    cur
}

pub fn d_u32() -> u32 { 7 }

fn pointer(path: &[Value]) -> String {
    path.iter().map(|p| match p { Value::String(k) => format!("/{}", k.replace('~', "~0").replace('/', "~1")), other => format!("/{other}") }).collect()
}

pub fn probes<T: ohkami::serde::de::DeserializeOwned + ohkami::serde::Serialize>(n: usize, v: &Value) -> Vec<Value> {
    let mut out = vec![json!({"instance": n, "path": null, "key": null, "ok_without": serde_json::from_value::<T>(v.clone()).is_ok()})];
    let mut paths = vec![];
    objects(v, &mut vec![], &mut paths);
    for p in paths {
        if !p.is_empty() {
            // is this location read at all? (skip_deserializing and the like ignore whatever is there)
            let mut w = v.clone();
            *at(&mut w, &p) = json!(12345.5);
            if serde_json::from_value::<T>(w).is_ok() {
                out.push(json!({"instance": n, "path": p, "key": null, "unread": true}));
                continue
            }
        }
        let mut w = v.clone();
        let keys: Vec<String> = at(&mut w, &p).as_object().unwrap().keys().cloned().collect();
        for k in keys {
            let mut w = v.clone();
            at(&mut w, &p).as_object_mut().unwrap().remove(&k);
            // reading succeeded - as the same thing? (an untagged enum may read the rest as another variant; that says nothing about k)
            let (ok, same) = match serde_json::from_value::<T>(w.clone()) {
                Ok(t) => {
                    let mut back = serde_json::to_value(&t).unwrap_or(Value::Null);
                    let same = match back.pointer_mut(&pointer(&p)).and_then(|o| o.as_object_mut()) {
                        Some(o) => { o.remove(&k); Some(&*o) == at(&mut w, &p).as_object().map(|x| x) }
                        None => false,
                    };
                    (true, same)
                }
                Err(_) => (false, true),
            };
            out.push(json!({"instance": n, "path": p, "key": k, "ok_without": ok, "read_as_the_same_value": same}));
        }
    }
    out
}
"""


def write_main(bdir, ids):
    open(os.path.join(bdir, "src", "main.rs"), "w").write(
        "mod probe;\n" + "".join(f"mod t{i};\n" for i in ids) + "fn main() {\n    let only: Option<usize> = std::env::args().nth(1).and_then(|s| s.parse().ok());\n"
        + "".join(f"    if only.map(|o| o == {i}).unwrap_or(true) {{ t{i}::run(); }}\n" for i in ids) + "}\n")


def main():
    ap = argparse.ArgumentParser()
    ap.add_argument("--seed", type=int, default=1)
    ap.add_argument("--n", type=int, default=100)
    ap.add_argument("--batches", type=int, default=1)
    ap.add_argument("--out", required=True)
    ap.add_argument("--first", type=int, default=0)
    ap.add_argument("--repo", default="/repo")
    a = ap.parse_args()
    meta = {}
    per_batch = {b: [] for b in range(a.batches)}
    for b in range(a.batches):
        os.makedirs(os.path.join(a.out, f"b{b}", "src"), exist_ok=True)
    for i in range(a.first, a.first + a.n):
        g = G(a.seed * 1_000_003 + i)
        body, attrs, shape = gen_witness(i) if i < len(WITNESSES) else gen_type(g, i)
        b = i % a.batches
        open(os.path.join(a.out, f"b{b}", "src", f"t{i}.rs"), "w").write(body)
        per_batch[b].append(i)
        meta[i] = {"attrs": attrs, "shape": shape, "batch": b}
    for b, ids in per_batch.items():
        bdir = os.path.join(a.out, f"b{b}")
        write_main(bdir, ids)
        open(os.path.join(bdir, "src", "probe.rs"), "w").write(PROBE_RS)
        open(os.path.join(bdir, "Cargo.toml"), "w").write(f"""[package]
name = "c16b{b}"
version = "0.1.0"
edition = "2021"

[features]
schema = []

[dependencies]
ohkami = {{ path = "{a.repo}/ohkami", features = ["rt_tokio", "openapi"] }}
serde_json = "1.0"
""")
    open(os.path.join(a.out, "Cargo.toml"), "w").write("[workspace]\nresolver = \"2\"\nmembers = [" + ", ".join(f'"b{b}"' for b in range(a.batches)) + "]\n\n[profile.dev]\ndebug = 0\nincremental = false\n")
    json.dump(meta, open(os.path.join(a.out, "meta.json"), "w"))


if __name__ == "__main__":
    main()
